package vh

import (
	"fmt"
	"sort"
	"strings"
)

// A driver produces histories (lists of Ops); ctx.Run executes one history on a fresh
// Machine and logs its events. Drivers decide nothing: every verdict is TLC's.
type DriverCtx struct {
	G          *Gen
	N          int
	TypeFilter map[string]bool
	Run        func(ops []Op) error
}

func ParseFilter(s string) map[string]bool {
	if s == "" {
		return nil
	}
	m := map[string]bool{}
	for _, t := range strings.Split(s, ",") {
		m[t] = true
	}
	return m
}

func (c *DriverCtx) types() []string {
	out := []string{}
	for _, t := range TypeNames() {
		if c.TypeFilter == nil || c.TypeFilter[t] {
			out = append(out, t)
		}
	}
	return out
}

var Drivers = map[string]func(*DriverCtx) error{}

func init() {
	Drivers["roundtrip-canon"] = func(c *DriverCtx) error { return driveRoundtrip(c, Canon) }
	Drivers["roundtrip-wild"] = func(c *DriverCtx) error { return driveRoundtrip(c, Wild) }
	Drivers["history"] = driveHistory
	Drivers["stream"] = driveStream
	Drivers["cut"] = driveCut
	Drivers["reencode"] = driveReencode
	Drivers["dirty"] = driveDirty
	Drivers["alias"] = driveAlias
	Drivers["tables"] = driveTables
	Drivers["encode-any"] = driveEncodeAny
}

// new / encode into a fresh buffer / decode into a fresh receiver, N values per type.
func driveRoundtrip(c *DriverCtx, mode Mode) error {
	for _, t := range c.types() {
		for _, v := range c.G.AgreeVariants(t, 4) {
			if err := c.Run([]Op{{Op: "new", O: "m", V: v}, {Op: "encode", B: "b", O: "m"}, {Op: "decode", B: "b", O: "r", T: t, Fresh: true, Tag: "fields-agree"}}); err != nil {
				return err
			}
		}
		for i := 0; i < c.N; i++ {
			v := c.G.Value(t, mode)
			ops := []Op{
				{Op: "new", O: "m", V: v},
				{Op: "encode", B: "b", O: "m"},
				{Op: "decode", B: "b", O: "r", T: t, Fresh: true},
			}
			if mode == Canon && i%2 == 0 {
				// the receive buffer goes back to the pool and is refilled; the application then looks at the message
				ops = append(ops, Op{Op: "scribble", B: "b", K: 32, Tag: "pool-reuse"}, Op{Op: "observe", O: "r", Tag: "kept"})
			}
			if err := c.Run(ops); err != nil {
				return err
			}
		}
	}
	return nil
}

func (c *DriverCtx) junk(n int) []int {
	out := make([]int, n)
	for i := range out {
		out[i] = c.G.R.Intn(256)
	}
	return out
}

// Buffer histories (C04, C05, C06): arbitrary prior content, arbitrary amount already read,
// earlier encodes of the same or other messages, a paired reference encode of a deep copy
// into an empty buffer, and a re-encode of the same object.
func driveHistory(c *DriverCtx) error {
	all := c.types()
	for _, t := range all {
		for i := 0; i < c.N; i++ {
			r := c.G.R
			v := c.G.Value(t, Canon)
			ops := []Op{{Op: "new", O: "m", V: v}, {Op: "copy", O: "ref", From: "m"}, {Op: "encode", B: "bref", O: "ref", Tag: "reference"}}
			// prior state of the target buffer
			switch r.Intn(6) {
			case 5: // empty but roomy: a recycled buffer whose capacity is far larger than the frame
				ops = append(ops, Op{Op: "write", B: "b", Bytes: make([]int, 6000)}, Op{Op: "next", B: "b", K: 6000})
			case 0: // empty
			case 1: // junk
				ops = append(ops, Op{Op: "write", B: "b", Bytes: c.junk(1 + r.Intn(40))})
			case 2: // junk, partly consumed
				n := 2 + r.Intn(40)
				ops = append(ops, Op{Op: "write", B: "b", Bytes: c.junk(n)}, Op{Op: "next", B: "b", K: 1 + r.Intn(n-1)})
			case 3: // an earlier frame of another type, whole
				t2 := all[r.Intn(len(all))]
				ops = append(ops, Op{Op: "new", O: "e", V: c.G.Value(t2, Canon)}, Op{Op: "encode", B: "b", O: "e", Tag: "earlier"})
			case 4: // an earlier encode of the same message, then partly consumed
				ops = append(ops, Op{Op: "copy", O: "e", From: "m"}, Op{Op: "encode", B: "b", O: "e", Tag: "earlier-same"}, Op{Op: "next", B: "b", K: 1 + r.Intn(6)})
			}
			ops = append(ops, Op{Op: "encode", B: "b", O: "m", Tag: "target"})
			switch r.Intn(3) {
			case 0:
				ops = append(ops, Op{Op: "encode", B: "b", O: "m", Tag: "again"})
			case 1:
				ops = append(ops, Op{Op: "next", B: "b", K: 1 + r.Intn(9)}, Op{Op: "encode", B: "b", O: "m", Tag: "again-after-read"})
			case 2:
				ops = append(ops, Op{Op: "encode", B: "b2", O: "m", Tag: "again-fresh"})
			}
			if err := c.Run(ops); err != nil {
				return err
			}
		}
	}
	return nil
}

// Streams (C07): n messages of mixed types back to back, optional trailing bytes, then n decodes.
func driveStream(c *DriverCtx) error {
	all := c.types()
	r := c.G.R
	for _, t := range all {
		if BodyField(t) != nil {
			if err := streamAfterRefusal(c, t); err != nil {
				return err
			}
		}
		for i := 0; i < c.N; i++ {
			k := 1 + r.Intn(4)
			if r.Intn(10) == 0 {
				k = 5 + r.Intn(16)
			}
			ts := []string{t}
			sameType := BodyField(t) != nil && i%2 == 1 // a stream of one type carrying different bodies / extensions
			for j := 1; j < k; j++ {
				if sameType {
					ts = append(ts, t)
				} else {
					ts = append(ts, all[r.Intn(len(all))])
				}
			}
			if sameType && k < 3 {
				ts = append(ts, t, t)
			}
			ops := []Op{}
			for j, tj := range ts {
				o := fmt.Sprintf("m%d", j)
				ops = append(ops, Op{Op: "new", O: o, V: c.G.Value(tj, Canon)}, Op{Op: "encode", B: "b", O: o})
			}
			if r.Intn(2) == 0 {
				var tail []int
				switch r.Intn(3) {
				case 0:
					tail = []int{0}
				case 1:
					tail = []int{255, 255, 255, 255}
				default:
					tail = c.junk(1 + r.Intn(20))
				}
				ops = append(ops, Op{Op: "write", B: "b", Bytes: tail, Tag: "tail"})
			}
			recycle := i%2 == 1 // a receive loop that reuses one receiver per message type
			seen := map[string]bool{}
			for j, tj := range ts {
				if recycle {
					ops = append(ops, Op{Op: "decode", B: "b", O: "recv:" + tj, T: tj, Fresh: !seen[tj], Tag: "recycled-receiver"})
					seen[tj] = true
				} else {
					ops = append(ops, Op{Op: "decode", B: "b", O: fmt.Sprintf("r%d", j), T: tj, Fresh: true})
				}
			}
			ops = append(ops, Op{Op: "peek", B: "b"})
			if err := c.Run(ops); err != nil {
				return err
			}
		}
	}
	return nil
}

// a receive loop on ONE receiver that meets a message cut short (a partial segment) between two complete
// messages carrying different body / extension types: X, a truncated Y (refused), the complete Y, X again
func streamAfterRefusal(c *DriverCtx, t string) error {
	tab, ok := tableOwnedBy(t)
	if !ok || len(tab.Entries) < 2 {
		return nil
	}
	lo, hi := tab.Entries[0], tab.Entries[0]
	for _, e := range tab.Entries {
		if len(S.Types[e.Type].Fields) < len(S.Types[lo.Type].Fields) {
			lo = e
		}
		if len(S.Types[e.Type].Fields) > len(S.Types[hi.Type].Fields) {
			hi = e
		}
	}
	bf := BodyField(t)
	rnd := tab.Entries[c.G.R.Intn(len(tab.Entries))]
	for _, pr := range [][2]TableEntry{{lo, hi}, {hi, lo}, {rnd, lo}} {
		x, y := c.G.Value(t, Canon), c.G.Value(t, Canon)
		x[tab.KeyField], x[bf.Name] = pr[0].Key, c.G.Value(pr[0].Type, Canon)
		y[tab.KeyField], y[bf.Name] = pr[1].Key, c.G.Value(pr[1].Type, Canon)
		m := NewMachine()
		if _, err := m.Exec(Op{Op: "new", O: "y", V: y}); err != nil {
			return err
		}
		ev, err := m.Exec(Op{Op: "encode", B: "b", O: "y"})
		if err != nil {
			return err
		}
		n := len(ev.Post)
		if n < 3 {
			continue
		}
		for _, k := range []int{n - 1, n / 2, n / 4, 1 + c.G.R.Intn(n-1)} {
			if k < 1 {
				continue
			}
			ops := []Op{{Op: "new", O: "x", V: x}, {Op: "new", O: "y", V: y},
				{Op: "encode", B: "b", O: "x"}, {Op: "encode", B: "b", O: "y"}, {Op: "encode", B: "b", O: "x"}, {Op: "encode", B: "bsolo", O: "y"},
				{Op: "decode", B: "b", O: "recv", T: t, Fresh: true, Tag: "recycled-receiver"},
				{Op: "cut", B: "bc", From: "bsolo", K: k}, {Op: "decode", B: "bc", O: "recv", T: t, Tag: "truncated-into-used-receiver"},
				{Op: "decode", B: "b", O: "recv", T: t, Tag: "recycled-receiver-after-refusal"},
				{Op: "decode", B: "b", O: "recv", T: t, Tag: "recycled-receiver"},
				{Op: "peek", B: "b"}}
			if err := c.Run(ops); err != nil {
				return err
			}
		}
	}
	return nil
}

// Truncations (C11): every cut position of a canonical encoding.
func driveCut(c *DriverCtx) error {
	for _, t := range c.types() {
		for i := 0; i < c.N; i++ {
			v := c.G.Value(t, Canon)
			// find the encoding length with a probe run on a private machine
			m := NewMachine()
			if _, err := m.Exec(Op{Op: "new", O: "m", V: v}); err != nil {
				return err
			}
			ev, err := m.Exec(Op{Op: "encode", B: "b", O: "m"})
			if err != nil {
				return err
			}
			w := ev.Post
			ops := []Op{{Op: "new", O: "m", V: v}, {Op: "encode", B: "bref", O: "m", Tag: "reference"}}
			cuts := []int{}
			if len(w) <= 400 {
				for k := 0; k < len(w); k++ {
					cuts = append(cuts, k)
				}
			} else { // very long encodings: all cuts in the first and last 150 bytes plus 100 random ones
				seen := map[int]bool{}
				for k := 0; k < 150; k++ {
					seen[k] = true
					seen[len(w)-1-k] = true
				}
				for j := 0; j < 100; j++ {
					seen[c.G.R.Intn(len(w))] = true
				}
				for k := range seen {
					cuts = append(cuts, k)
				}
			}
			for _, k := range cuts {
				b := fmt.Sprintf("c%d", k)
				ops = append(ops, Op{Op: "cut", B: b, From: "bref", K: k}, Op{Op: "decode", B: b, O: "r", T: t, Fresh: true})
			}
			if err := c.Run(ops); err != nil {
				return err
			}
			// a text of more than 64 KiB behind a 32-bit prefix in the LAST such field (a reader that takes long texts in
			// blocks notices a missing tail last): cut one byte, part of a block, and several blocks short
			if i == 0 {
				var lastWide *Field
				for k := range S.Types[t].Fields {
					if f := &S.Types[t].Fields[k]; f.Kind == "str" && f.PW >= 4 {
						lastWide = f
					}
				}
				if lastWide != nil {
					c.G.Small = true
					vl := c.G.Value(t, Canon)
					c.G.Small = false
					e := make([]int, 66000+c.G.R.Intn(6000))
					for q := range e {
						e[q] = 0x41 + q%25
					}
					vl[lastWide.Name] = e
					ml := NewMachine()
					if _, err := ml.Exec(Op{Op: "new", O: "m", V: vl}); err != nil {
						return err
					}
					evl, err := ml.Exec(Op{Op: "encode", B: "b", O: "m"})
					if err != nil {
						return err
					}
					n := len(evl.Post)
					opsl := []Op{{Op: "new", O: "m", V: vl}, {Op: "encode", B: "bref", O: "m", Tag: "reference"}}
					for _, k := range []int{n - 1, n - 2 - c.G.R.Intn(4000), n - 9000 - c.G.R.Intn(4000)} {
						if k > 0 && k < n {
							b := fmt.Sprintf("c%d", k)
							opsl = append(opsl, Op{Op: "cut", B: b, From: "bref", K: k}, Op{Op: "decode", B: b, O: "r", T: t, Fresh: true, Tag: "long-text-cut"})
						}
					}
					if evl.Res == "ok" {
						if err := c.Run(opsl); err != nil {
							return err
						}
					}
				}
			}
			// the LAST field is a fixed-width text that begins with the complete wire bytes of an earlier, narrower text field of the
			// same message; the message is decoded whole first, then cut so that exactly those bytes of the last field are present
			// (a reader that recognises field contents it has seen before must still count the bytes)
			if fs := S.Types[t].Fields; i == 0 && len(fs) > 1 && fs[len(fs)-1].Kind == "fixed" && !fs[len(fs)-1].Left && fs[len(fs)-1].N >= 4 {
				lf := fs[len(fs)-1]
				done := 0
				for k := 0; k < len(fs)-1 && done < 3; k++ {
					f := fs[k]
					if f.Kind != "fixed" || f.Left || f.Pad != lf.Pad || f.N < 3 || f.N >= lf.N {
						continue
					}
					done++
					vq := c.G.Value(t, Canon)
					short := make([]int, f.N-1) // one pad byte on the wire
					for q := range short {
						short[q] = 0x42 + (q+k)%20
					}
					long := append(append([]int{}, short...), f.Pad)
					for len(long) < lf.N {
						long = append(long, 0x78)
					}
					vq[f.Name], vq[lf.Name] = short, long
					mq := NewMachine()
					if _, err := mq.Exec(Op{Op: "new", O: "m", V: vq}); err != nil {
						return err
					}
					evq, err := mq.Exec(Op{Op: "encode", B: "b", O: "m"})
					if err != nil {
						return err
					}
					if evq.Res != "ok" {
						continue
					}
					n := len(evq.Post)
					opsq := []Op{{Op: "new", O: "m", V: vq}, {Op: "encode", B: "bref", O: "m", Tag: "reference"}, {Op: "encode", B: "bw", O: "m"},
						{Op: "decode", B: "bw", O: "whole", T: t, Fresh: true, Tag: "whole-first"},
						{Op: "cut", B: "cq", From: "bref", K: n - lf.N + f.N}, {Op: "decode", B: "cq", O: "r", T: t, Fresh: true, Tag: "last-field-holds-an-earlier-field"}}
					if err := c.Run(opsq); err != nil {
						return err
					}
				}
			}
			// the same cuts decoded into ONE used receiver that holds an earlier message of this type (another
			// body / extension type, longer lists): what the receiver holds must not complete a truncated message
			if i == 0 && (BodyField(t) != nil || hasKind(t, "objlist") || hasKind(t, "obj")) {
				c.G.MaxList = 6
				other := c.G.Value(t, Canon)
				c.G.MaxList = 3
				vv := v
				if tab, ok := tableOwnedBy(t); ok && !IsFrame(t) {
					// the receiver holds the SHORTEST registered body / extension, the truncated message carries the longest
					lo, hi := tab.Entries[0], tab.Entries[0]
					for _, e := range tab.Entries {
						if len(S.Types[e.Type].Fields) < len(S.Types[lo.Type].Fields) {
							lo = e
						}
						if len(S.Types[e.Type].Fields) > len(S.Types[hi.Type].Fields) {
							hi = e
						}
					}
					bf := BodyField(t)
					other[tab.KeyField], other[bf.Name] = lo.Key, c.G.Value(lo.Type, Canon)
					vv = c.G.Value(t, Canon)
					vv[tab.KeyField], vv[bf.Name] = hi.Key, c.G.Value(hi.Type, Canon)
				}
				ops3 := []Op{{Op: "new", O: "m", V: vv}, {Op: "encode", B: "bref", O: "m", Tag: "reference"},
					{Op: "new", O: "mo", V: other}, {Op: "encode", B: "bo", O: "mo"}, {Op: "decode", B: "bo", O: "used", T: t, Fresh: true, Tag: "make-dirty"}}
				m3 := NewMachine()
				if _, err := m3.Exec(Op{Op: "new", O: "m", V: vv}); err != nil {
					return err
				}
				ev3, err := m3.Exec(Op{Op: "encode", B: "b", O: "m"})
				if err != nil {
					return err
				}
				for k := 0; k < len(ev3.Post) && k < 700; k++ {
					b := fmt.Sprintf("c%d", k)
					ops3 = append(ops3, Op{Op: "cut", B: b, From: "bref", K: k}, Op{Op: "decode", B: b, O: "used", T: t, Tag: "truncated-into-used-receiver"})
				}
				if err := c.Run(ops3); err != nil {
					return err
				}
			}
			// the same with the frame's checksum service removed from the registry (the encoder then
			// keeps the caller's checksum; a truncated frame must still be rejected)
			if alg := checksumAlgOf(t); alg != "" && i == 0 {
				ops2 := []Op{{Op: "regremove", Alg: alg}, {Op: "new", O: "m", V: v}, {Op: "encode", B: "bref", O: "m", Tag: "reference"}}
				for _, k := range cuts {
					b := fmt.Sprintf("c%d", k)
					ops2 = append(ops2, Op{Op: "cut", B: b, From: "bref", K: k}, Op{Op: "decode", B: b, O: "r", T: t, Fresh: true, Tag: "service-removed"})
				}
				ops2 = append(ops2, Op{Op: "regrestore", Alg: alg})
				if err := c.Run(ops2); err != nil {
					return err
				}
			}
		}
	}
	return nil
}

func tableOwnedBy(t string) (Table, bool) {
	for _, tn := range TableNames() {
		if S.Tables[tn].Owner == t {
			return S.Tables[tn], true
		}
	}
	return Table{}, false
}

func hasKind(t, kind string) bool {
	for _, f := range S.Types[t].Fields {
		if f.Kind == kind {
			return true
		}
	}
	return false
}

func checksumAlgOf(t string) string {
	for _, f := range S.Types[t].Fields {
		if f.Kind == "checksum" {
			return f.Alg
		}
	}
	return ""
}

// Wire-level fuzz for C08: a valid encoding whose field slots are overwritten with arbitrary
// bytes (counts and keys kept), decoded, and the result encoded again.
func driveReencode(c *DriverCtx) error {
	for _, t := range c.types() {
		for i := 0; i < c.N; i++ {
			v := c.G.Value(t, Canon)
			m := NewMachine()
			if _, err := m.Exec(Op{Op: "new", O: "m", V: v}); err != nil {
				return err
			}
			ev, err := m.Exec(Op{Op: "encode", B: "b", O: "m"})
			if err != nil {
				return err
			}
			w := append([]int{}, ev.Post...)
			slots := SlotMap(t, v, w)
			if slots != nil && i%3 != 0 { // every third image stays exactly what the encoder produced (long pad runs intact)
				for p := range w {
					if slots[p] == 'd' && c.G.R.Intn(3) == 0 { // data byte: anything goes
						w[p] = c.G.textByte()
					}
				}
			}
			if i%4 == 3 {
				w = append(w, c.junk(1+c.G.R.Intn(5))...)
			}
			if slots != nil && i%3 == 1 {
				// a frame that announces a longer body than its layout reads: k slack bytes are put
				// after the body and the length field is raised by k (decoders that trust the
				// length would swallow them)
				w = withSlack(t, w, slots, 1+c.G.R.Intn(6), c)
			}
			ops := []Op{{Op: "load", B: "b", Bytes: w}, {Op: "decode", B: "b", O: "r", T: t, Fresh: true}}
			if i%2 == 1 {
				// the receive buffer is recycled before the message is sent on
				ops = append(ops, Op{Op: "scribble", B: "b", K: 32, Tag: "recycle-receive-buffer"})
			}
			ops = append(ops, Op{Op: "encode", B: "b2", O: "r", Tag: "reencode"})
			if err := c.Run(ops); err != nil {
				return err
			}
		}
	}
	return nil
}

// withSlack returns the frame image w with k extra bytes between body and trailer and the
// length field ('n' slot) increased by k; w is returned unchanged when t has no length field.
func withSlack(t string, w []int, slots []byte, k int, c *DriverCtx) []int {
	p := -1
	for i := range slots {
		if i < len(w) && slots[i] == 'n' {
			p = i
			break
		}
	}
	if p < 0 || p+4 > len(w) {
		return w
	}
	le := S.Protocols[S.Types[t].Proto].Endian == "LE"
	n := 0
	for j := 0; j < 4; j++ {
		if le {
			n |= w[p+j] << uint(8*j)
		} else {
			n = n<<8 | w[p+j]
		}
	}
	n += k
	out := append([]int{}, w...)
	for j := 0; j < 4; j++ {
		if le {
			out[p+j] = (n >> uint(8*j)) & 0xff
		} else {
			out[p+3-j] = (n >> uint(8*j)) & 0xff
		}
	}
	trailer := 0
	for i := range slots {
		if i < len(w) && slots[i] == 'c' {
			trailer++
		}
	}
	end := len(slots) - trailer // end of the body within the frame image
	res := append([]int{}, out[:end]...)
	res = append(res, c.junk(k)...)
	return append(res, out[end:]...)
}

// SlotMap classifies every byte of the encoding w of value v (type t), following the pinned
// schema: 'd' data (text bytes, numeric bytes that are not keys), 'p' prefix/count, 'k' key,
// 'n' computed length, 'c' computed checksum. Returns nil if the walk does not end exactly at len(w)
// (then the fuzz leaves the bytes alone). Generation aid only.
func SlotMap(t string, v map[string]any, w []int) []byte {
	out := make([]byte, len(w))
	pos := 0
	ok := slotWalk(t, v, out, &pos)
	if !ok || pos != len(w) {
		return nil
	}
	return out
}

func mark(out []byte, pos *int, n int, c byte) bool {
	if *pos+n > len(out) {
		return false
	}
	for i := 0; i < n; i++ {
		out[*pos+i] = c
	}
	*pos += n
	return true
}

func asList(x any) []any {
	switch a := x.(type) {
	case []any:
		return a
	case []int:
		out := make([]any, len(a))
		for i, e := range a {
			out[i] = e
		}
		return out
	}
	return nil
}

func slotWalk(t string, v map[string]any, out []byte, pos *int) bool {
	td := S.Types[t]
	keys := map[string]bool{}
	for _, f := range td.Fields {
		if f.Kind == "body" {
			keys[f.Key] = true
		}
	}
	for i := range td.Fields {
		f := &td.Fields[i]
		x := v[f.Name]
		switch f.Kind {
		case "int":
			c := byte('d')
			if keys[f.Name] {
				c = 'k'
			}
			if !mark(out, pos, f.W, c) {
				return false
			}
		case "len":
			if !mark(out, pos, f.W, 'n') {
				return false
			}
		case "checksum":
			if !mark(out, pos, f.W, 'c') {
				return false
			}
		case "fixed":
			c := byte('d')
			if keys[f.Name] {
				c = 'k'
			}
			if !mark(out, pos, f.N, c) {
				return false
			}
		case "str":
			if !mark(out, pos, f.PW, 'p') || !mark(out, pos, len(asList(x)), 'd') {
				return false
			}
		case "list":
			if !mark(out, pos, f.PW, 'p') {
				return false
			}
			for _, e := range asList(x) {
				switch f.Elem.Kind {
				case "int":
					if !mark(out, pos, f.Elem.W, 'd') {
						return false
					}
				case "fixed":
					if !mark(out, pos, f.Elem.N, 'd') {
						return false
					}
				case "str":
					if !mark(out, pos, f.Elem.PW, 'p') || !mark(out, pos, len(asList(e)), 'd') {
						return false
					}
				}
			}
		case "obj":
			m, _ := x.(map[string]any)
			if m == nil || m["_t"] == "nil" || !slotWalk(f.Type, m, out, pos) {
				return false
			}
		case "objlist":
			if !mark(out, pos, f.PW, 'p') {
				return false
			}
			for _, e := range asList(x) {
				m, _ := e.(map[string]any)
				if m == nil || !slotWalk(f.Type, m, out, pos) {
					return false
				}
			}
		case "body":
			m, _ := x.(map[string]any)
			if m == nil || m["_t"] == "nil" {
				continue
			}
			bt, _ := m["_t"].(string)
			if !slotWalk(bt, m, out, pos) {
				return false
			}
		}
	}
	return true
}

// Receiver reuse (C15): decode the same bytes into a fresh receiver and into a receiver that
// already holds another decoded message of the same type (longer lists, other body ...).
func driveDirty(c *DriverCtx) error {
	for _, t := range c.types() {
		for i := 0; i < c.N; i++ {
			c.G.MaxList = 6
			dirty := c.G.Value(t, Canon)
			c.G.MaxList = 2
			v := c.G.Value(t, Canon)
			c.G.MaxList = 3
			if i%3 == 2 {
				v = emptied(v) // every list empty, every text empty: nothing on the wire overwrites old content
			}
			ops := []Op{
				{Op: "new", O: "md", V: dirty}, {Op: "encode", B: "bd", O: "md"},
				{Op: "new", O: "m", V: v}, {Op: "encode", B: "b1", O: "m"}, {Op: "encode", B: "b2", O: "m"}, {Op: "encode", B: "b3", O: "m"},
				{Op: "encode", B: "b4", O: "m"}, {Op: "encode", B: "bsrc", O: "m"},
				{Op: "decode", B: "b1", O: "fresh", T: t, Fresh: true},
				{Op: "decode", B: "bd", O: "reused", T: t, Fresh: true, Tag: "make-dirty"},
				{Op: "decode", B: "b2", O: "reused", T: t, Tag: "into-dirty"},
				{Op: "new", O: "filled", V: dirty},
				{Op: "decode", B: "b3", O: "filled", T: t, Tag: "into-built"},
			}
			// a receiver whose previous decode FAILED half-way (a truncated message), then the complete one
			m := NewMachine()
			if _, err := m.Exec(Op{Op: "new", O: "m", V: v}); err != nil {
				return err
			}
			ev, err := m.Exec(Op{Op: "encode", B: "b", O: "m"})
			if err != nil {
				return err
			}
			// a receiver built by the caller in which one nested object is referenced more than once
			ops = append(ops, Op{Op: "new", O: "shared", V: dirty}, Op{Op: "sharepointers", O: "shared"}, Op{Op: "encode", B: "b5", O: "m"},
				Op{Op: "decode", B: "b5", O: "shared", T: t, Tag: "into-built-with-shared-parts"})
			// ... and one in which every position of a repeating group is the SAME entry object; the incoming
			// message has at least two different entries there
			for _, f := range S.Types[t].Fields {
				if f.Kind != "objlist" {
					continue
				}
				v3 := c.G.Value(t, Canon)
				lst := asList(v3[f.Name])
				for len(lst) < 2+i%2 {
					lst = append(lst, c.G.Value(f.Type, Canon))
				}
				v3[f.Name] = lst
				ops = append(ops, Op{Op: "new", O: "m3", V: v3}, Op{Op: "encode", B: "b6", O: "m3"}, Op{Op: "encode", B: "b7", O: "m3"},
					Op{Op: "decode", B: "b6", O: "fresh3", T: t, Fresh: true},
					Op{Op: "new", O: "dup", V: dirty}, Op{Op: "duppointers", O: "dup"},
					Op{Op: "decode", B: "b7", O: "dup", T: t, Tag: "into-built-with-one-entry-object-repeated"})
				break
			}
			if n := len(ev.Post); n > 1 && BodyField(t) != nil {
				// for types that choose a body / extension by a key: the failed decode stops at EVERY one of the first offsets
				lim := 14
				if n-1 < lim {
					lim = n - 1
				}
				for k := 1; k <= lim; k++ {
					r := fmt.Sprintf("rk%d", k)
					ops = append(ops, Op{Op: "encode", B: "bd" + r, O: "md"}, Op{Op: "decode", B: "bd" + r, O: r, T: t, Fresh: true, Tag: "make-dirty"},
						Op{Op: "cut", B: "bc" + r, From: "bsrc", K: k}, Op{Op: "decode", B: "bc" + r, O: r, T: t, Tag: "truncated-into-dirty"},
						Op{Op: "encode", B: "bf" + r, O: "m"}, Op{Op: "decode", B: "bf" + r, O: r, T: t, Tag: "into-dirty-after-failed-decode"})
				}
			}
			if n := len(ev.Post); n > 1 {
				// receiver holds the OTHER message, then a truncated copy of this one fails, then the complete one
				ops = append(ops, Op{Op: "encode", B: "bd2", O: "md"},
					Op{Op: "decode", B: "bd2", O: "reused2", T: t, Fresh: true, Tag: "make-dirty"},
					Op{Op: "cut", B: "bcut", From: "bsrc", K: 1 + c.G.R.Intn(n-1)},
					Op{Op: "decode", B: "bcut", O: "reused2", T: t, Tag: "truncated-into-dirty"},
					Op{Op: "decode", B: "b4", O: "reused2", T: t, Tag: "into-dirty-after-failed-decode"})
			}
			if err := c.Run(ops); err != nil {
				return err
			}
		}
	}
	return nil
}

// emptied returns a copy of the value tree with every list and every text empty (keys kept)
func emptied(v map[string]any) map[string]any {
	t, _ := v["_t"].(string)
	td, ok := S.Types[t]
	if !ok {
		return v
	}
	keys := map[string]bool{}
	for _, f := range td.Fields {
		if f.Kind == "body" {
			keys[f.Key] = true
		}
	}
	out := map[string]any{"_t": t}
	for _, f := range td.Fields {
		x := v[f.Name]
		switch f.Kind {
		case "list", "objlist":
			out[f.Name] = []any{}
		case "fixed", "str":
			if keys[f.Name] {
				out[f.Name] = x
			} else {
				out[f.Name] = []int{}
			}
		case "obj", "body":
			if m, ok := x.(map[string]any); ok && m["_t"] != "nil" {
				out[f.Name] = emptied(m)
			} else {
				out[f.Name] = x
			}
		default:
			out[f.Name] = x
		}
	}
	return out
}

// Aliasing (C16): decode, then overwrite/reset/reuse the source buffer's memory and look at
// the message again; encode, then change the message in place and look at the bytes again.
func driveAlias(c *DriverCtx) error {
	for _, t := range c.types() {
		for i := 0; i < c.N; i++ {
			v := c.G.Value(t, Canon)
			ops := []Op{
				{Op: "new", O: "m", V: v}, {Op: "encode", B: "b", O: "m"},
				{Op: "decode", B: "b", O: "r", T: t, Fresh: true},
				{Op: "scribble", B: "b", K: 64, Tag: "pool-reuse"},
				{Op: "observe", O: "r"},
				{Op: "new", O: "m2", V: v}, {Op: "encode", B: "b2", O: "m2"},
				{Op: "mutate", O: "m2"},
				{Op: "peek", B: "b2"},
				// a buffer over caller-owned memory
				{Op: "peek", B: "b2"},
			}
			// decode from a caller-owned slice, then overwrite that slice
			m := NewMachine()
			if _, err := m.Exec(Op{Op: "new", O: "m", V: v}); err != nil {
				return err
			}
			ev, err := m.Exec(Op{Op: "encode", B: "b", O: "m"})
			if err != nil {
				return err
			}
			ops = append(ops, Op{Op: "load", B: "own", Bytes: ev.Post}, Op{Op: "decode", B: "own", O: "r2", T: t, Fresh: true},
				Op{Op: "scribble", B: "own", K: 3, Tag: "owner-overwrites"}, Op{Op: "observe", O: "r2"})
			if err := c.Run(ops); err != nil {
				return err
			}
		}
		// two fields that agree (an explicit length next to a length-prefixed text, a count next to a repeating group)
		for _, v := range c.G.AgreeVariants(t, 6) {
			ops := []Op{{Op: "new", O: "m", V: v}, {Op: "encode", B: "b", O: "m"}, {Op: "decode", B: "b", O: "r", T: t, Fresh: true, Tag: "fields-agree"},
				{Op: "scribble", B: "b", K: 64, Tag: "pool-reuse"}, {Op: "observe", O: "r"}}
			if err := c.Run(ops); err != nil {
				return err
			}
		}
		// texts of 64 KiB and more behind a 32-bit prefix (a reader may hand big blocks out without copying them): the first
		// and the last such field of the type
		var wide []Field
		for _, f := range S.Types[t].Fields {
			if f.Kind == "str" && f.PW >= 4 {
				wide = append(wide, f)
			}
		}
		if len(wide) > 2 {
			wide = []Field{wide[0], wide[len(wide)-1]}
		}
		for j, f := range wide {
			c.G.Small = true
			v := c.G.Value(t, Canon)
			c.G.Small = false
			L := 65536 + j*(1+c.G.R.Intn(5000))
			e := make([]int, L)
			for q := range e {
				e[q] = 0x41 + (q+j)%25
			}
			v[f.Name] = e
			ops := []Op{{Op: "new", O: "m", V: v}, {Op: "encode", B: "b", O: "m"}, {Op: "decode", B: "b", O: "r", T: t, Fresh: true, Tag: "text-of-64KiB-or-more"},
				{Op: "scribble", B: "b", K: 64, Tag: "pool-reuse"}, {Op: "observe", O: "r"}}
			if err := c.Run(ops); err != nil {
				return err
			}
		}
		// text lists whose element lengths add up to exactly 65,536 (a total kept in 16 bits is 0 then)
		for _, f := range S.Types[t].Fields {
			if f.Kind != "list" || f.Elem.Kind != "str" || f.Elem.PW != 2 {
				continue
			}
			for _, lens := range [][]int{{32768, 32768}, {65535, 0, 1}, {65535}} {
				c.G.Small = true
				v := c.G.Value(t, Canon)
				c.G.Small = false
				lst := make([]any, len(lens))
				for j, l := range lens {
					e := make([]int, l)
					for q := range e {
						e[q] = 0x61 + j
					}
					lst[j] = e
				}
				v[f.Name] = lst
				ops := []Op{{Op: "new", O: "m", V: v}, {Op: "encode", B: "b", O: "m"}, {Op: "decode", B: "b", O: "r", T: t, Fresh: true, Tag: "total-65536"},
					{Op: "scribble", B: "b", K: 64, Tag: "pool-reuse"}, {Op: "observe", O: "r"}}
				if err := c.Run(ops); err != nil {
					return err
				}
			}
		}
	}
	return nil
}

// Discriminator tables (C12): every registered key of every table, both ways (decode builds
// the pinned type; encode materialises it when the body is left out), and unregistered keys.
func driveTables(c *DriverCtx) error {
	for _, tn := range TableNames() {
		tab := S.Tables[tn]
		owner := tab.Owner
		if c.TypeFilter != nil && !c.TypeFilter[owner] {
			continue
		}
		bf := BodyField(owner)
		keyField := tab.KeyField
		var kf *Field
		for i := range S.Types[owner].Fields {
			if S.Types[owner].Fields[i].Name == keyField {
				kf = &S.Types[owner].Fields[i]
			}
		}
		mk := func(key []int, body map[string]any) map[string]any {
			v := c.G.Value(owner, Canon)
			v[keyField] = key
			if body == nil {
				v[bf.Name] = nilObj
			} else {
				v[bf.Name] = body
			}
			return v
		}
		for _, e := range tab.Entries {
			for i := 0; i < c.N; i++ {
				// registered key, matching body: encode, decode
				v := mk(e.Key, c.G.Value(e.Type, Canon))
				ops := []Op{{Op: "new", O: "m", V: v}, {Op: "encode", B: "b", O: "m"}, {Op: "decode", B: "b", O: "r", T: owner, Fresh: true}}
				// registered key, body left out: encoder materialises (or skips, for the length-computing frames)
				v2 := mk(e.Key, nil)
				ops = append(ops, Op{Op: "new", O: "m2", V: v2}, Op{Op: "encode", B: "b2", O: "m2", Tag: "nil-body"}, Op{Op: "decode", B: "b2", O: "r2", T: owner, Fresh: true})
				if err := c.Run(ops); err != nil {
					return err
				}
			}
		}
		// a receive loop: every registered key in turn, decoded into ONE recycled receiver object
		for i := 0; i < c.N; i++ {
			ops := []Op{}
			perm := c.G.R.Perm(len(tab.Entries))
			for j, pi := range perm {
				e := tab.Entries[pi]
				o := fmt.Sprintf("m%d", j)
				ops = append(ops, Op{Op: "new", O: o, V: mk(e.Key, c.G.Value(e.Type, Canon))}, Op{Op: "encode", B: "b", O: o},
					Op{Op: "decode", B: "b", O: "recv", T: owner, Fresh: j == 0, Tag: "recycled-receiver"})
				if j >= 11 {
					break
				}
			}
			if err := c.Run(ops); err != nil {
				return err
			}
		}
		// a receive loop that meets unknown keys: registered, unknown, the SAME unknown again, registered
		unknownFor := func() []int {
			if tab.KeyKind == "int" {
				for {
					k := c.junk(kf.W)
					ok := true
					for _, e := range tab.Entries {
						if fmt.Sprint(e.Key) == fmt.Sprint(k) {
							ok = false
						}
					}
					if ok {
						return k
					}
				}
			}
			return []int{'9', 'Z', '9'}
		}
		for i := 0; i < 3*c.N; i++ {
			e1 := tab.Entries[c.G.R.Intn(len(tab.Entries))]
			e2 := tab.Entries[c.G.R.Intn(len(tab.Entries))]
			uk := unknownFor()
			ops := []Op{
				{Op: "new", O: "a", V: mk(e1.Key, c.G.Value(e1.Type, Canon))}, {Op: "encode", B: "b", O: "a"},
				{Op: "new", O: "u", V: mk(uk, c.G.Value(e2.Type, Canon))}, {Op: "encode", B: "b", O: "u", Tag: "unregistered-with-body"}, {Op: "encode", B: "b2", O: "u", Tag: "unregistered-with-body"},
				{Op: "new", O: "z", V: mk(e2.Key, c.G.Value(e2.Type, Canon))}, {Op: "encode", B: "b3", O: "z"},
				{Op: "decode", B: "b", O: "recv", T: owner, Fresh: true, Tag: "recycled-receiver"},
				{Op: "decode", B: "b", O: "recv", T: owner, Tag: "unregistered-into-used"},
				{Op: "decode", B: "b2", O: "recv", T: owner, Tag: "same-unregistered-again"},
				{Op: "decode", B: "b3", O: "recv", T: owner, Tag: "recycled-receiver"},
			}
			if err := c.Run(ops); err != nil {
				return err
			}
		}
		// unregistered keys
		reg := map[string]bool{}
		for _, e := range tab.Entries {
			reg[fmt.Sprint(e.Key)] = true
		}
		cands := [][]int{}
		if tab.KeyKind == "int" {
			w := kf.W
			for _, e := range tab.Entries {
				u := 0
				for _, b := range e.Key {
					u = u<<8 | b
				}
				for _, d := range []int{-1, 1} {
					x := u + d
					k := make([]int, w)
					for j := w - 1; j >= 0; j-- {
						k[j] = x & 0xff
						x >>= 8
					}
					cands = append(cands, k)
				}
				// byte-swapped key (would be "registered" under the wrong byte order)
				sw := make([]int, w)
				for j := range sw {
					sw[j] = e.Key[w-1-j]
				}
				cands = append(cands, sw)
			}
			cands = append(cands, make([]int, w))
			ff := make([]int, w)
			for j := range ff {
				ff[j] = 255
			}
			cands = append(cands, ff)
			for j := 0; j < 16; j++ {
				cands = append(cands, c.junk(w))
			}
		} else {
			alpha := []int{'0', '1', '2', '5', '9', ' ', 'A', 0, '+', '-'} // signs: keys that a numeric parser would accept
			for _, a := range alpha {
				for _, b := range alpha {
					for _, d := range alpha {
						cands = append(cands, []int{a, b, d})
					}
				}
			}
			for _, e := range tab.Entries { // prefixes and extensions of registered keys
				cands = append(cands, e.Key[:len(e.Key)-1], append(append([]int{}, e.Key...), 'X'), []int{})
			}
		}
		for _, k := range cands {
			if reg[fmt.Sprint(k)] {
				continue
			}
			// decode side: a valid encoding of a registered key with the key bytes replaced on
			// the wire is produced by encoding with a non-nil body and the unregistered key
			// (the encoder does not look the key up when a body is present).
			e := tab.Entries[c.G.R.Intn(len(tab.Entries))]
			v := mk(k, c.G.Value(e.Type, Canon))
			v2 := mk(k, nil)
			ops := []Op{{Op: "new", O: "m", V: v}, {Op: "encode", B: "b", O: "m", Tag: "unregistered-with-body"}, {Op: "decode", B: "b", O: "r", T: owner, Fresh: true, Tag: "unregistered"},
				{Op: "new", O: "m2", V: v2}, {Op: "encode", B: "b2", O: "m2", Tag: "unregistered-nil-body"}}
			if err := c.Run(ops); err != nil {
				return err
			}
		}
	}
	return nil
}

// Encode of anything constructible (C17): zero value, constructor result, wild values,
// nil body/extension with registered and unregistered keys, nil nested parts.
func driveEncodeAny(c *DriverCtx) error {
	for _, t := range c.types() {
		ops := []Op{{Op: "newzero", O: "z", T: t}, {Op: "encode", B: "bz", O: "z", Tag: "zero"}}
		if err := c.Run(ops); err != nil {
			return err
		}
		for i := 0; i < c.N; i++ {
			v := c.G.Value(t, Wild)
			if err := c.Run([]Op{{Op: "new", O: "m", V: v}, {Op: "encode", B: "b", O: "m", Tag: "wild"}}); err != nil {
				return err
			}
		}
		// one buffer used as a producer/consumer queue: encodes into a buffer that has been partly read, drained,
		// reset, or that has little / much spare capacity left
		for i := 0; i < (c.N+1)/2; i++ {
			v := c.G.Value(t, Canon)
			ops := []Op{{Op: "new", O: "q", V: v}}
			switch i % 3 {
			case 1:
				ops = append(ops, Op{Op: "write", B: "b", Bytes: make([]int, 5000)}, Op{Op: "next", B: "b", K: 5000})
			case 2:
				ops = append(ops, Op{Op: "write", B: "b", Bytes: c.junk(1 + c.G.R.Intn(60))}, Op{Op: "next", B: "b", K: 1})
			}
			ops = append(ops, Op{Op: "encode", B: "b", O: "q", Tag: "queue"}, Op{Op: "encode", B: "b", O: "q", Tag: "queue"})
			for k := 0; k < 5; k++ {
				ops = append(ops, Op{Op: "decode", B: "b", O: "qr", T: t, Fresh: k == 0, Tag: "queue"}, Op{Op: "encode", B: "b", O: "q", Tag: "queue: into a partly read buffer"})
				if k == 2 {
					ops = append(ops, Op{Op: "next", B: "b", K: 1 + c.G.R.Intn(7)})
				}
			}
			ops = append(ops, Op{Op: "reset", B: "b"}, Op{Op: "encode", B: "b", O: "q", Tag: "queue: after reset"})
			if err := c.Run(ops); err != nil {
				return err
			}
		}
		// every nil-able slot set to nil, one at a time and all together
		td := S.Types[t]
		slots := []string{}
		for _, f := range td.Fields {
			if (f.Kind == "obj" && !f.ByValue) || f.Kind == "body" {
				slots = append(slots, f.Name)
			}
		}
		for mask := 1; mask < 1<<len(slots); mask++ {
			v := c.G.Value(t, Canon)
			for j, s := range slots {
				if mask&(1<<j) != 0 {
					v[s] = nilObj
				}
			}
			if err := c.Run([]Op{{Op: "new", O: "m", V: v}, {Op: "encode", B: "b", O: "m", Tag: "nil-slots"}}); err != nil {
				return err
			}
		}
	}
	return nil
}

// Hostile byte strings for the decoders (C09/C10), direction B: mutations of valid encodings
// (prefix maximisation, truncation, bit flips, splices) and pure random bytes.
func driveHostile(c *DriverCtx) error {
	r := c.G.R
	enc := func(t string, v map[string]any) ([]int, error) {
		m := NewMachine()
		if _, err := m.Exec(Op{Op: "new", O: "m", V: v}); err != nil {
			return nil, err
		}
		ev, err := m.Exec(Op{Op: "encode", B: "b", O: "m"})
		if err != nil {
			return nil, err
		}
		return ev.Post, nil
	}
	c.G.Small = true
	longDone := 0
	// a refused frame, then a run-time registration in the same table, then an ordinary frame: every call must return
	for _, tn := range TableNames() {
		tab := S.Tables[tn]
		owner := tab.Owner
		if c.TypeFilter != nil && !c.TypeFilter[owner] {
			continue
		}
		bf := BodyField(owner)
		var unk, fresh []int
		if tab.KeyKind == "int" {
			w := len(tab.Entries[0].Key)
			unk, fresh = make([]int, w), make([]int, w)
			unk[0], unk[w-1] = 0x6e, 0x01
			fresh[0], fresh[w-1] = 0x6e, 0x02
		} else {
			unk, fresh = []int{'Y', '7', 'Y'}, []int{'Y', '8', 'Y'}
		}
		e := tab.Entries[0]
		mkv := func(key []int) map[string]any {
			v := c.G.Value(owner, Canon)
			v[tab.KeyField] = key
			v[bf.Name] = c.G.Value(e.Type, Canon)
			return v
		}
		wu, err := enc(owner, mkv(unk))
		if err != nil {
			return err
		}
		wk, err := enc(owner, mkv(e.Key))
		if err != nil {
			return err
		}
		ops := []Op{{Op: "load", B: "b", Bytes: wu}, {Op: "decode", B: "b", O: "r", T: owner, Fresh: true, Meter: true, Tag: "unregistered"},
			{Op: "regfactory", From: tn, Bytes: fresh, T: e.Type, Tag: "run-time-registration-after-a-refused-frame"},
			{Op: "load", B: "b2", Bytes: wk}, {Op: "decode", B: "b2", O: "r2", T: owner, Fresh: true, Meter: true, Tag: "after-registration"}}
		if err := c.Run(ops); err != nil {
			return err
		}
	}
	for _, t := range c.types() {
		// a long legitimate text goes through the decoder first (pooled scratch, caches ... are warm and large),
		// then prefixes that claim no more than that, with almost nothing behind them
		for _, f := range S.Types[t].Fields {
			if f.Kind != "str" || f.PW < 4 || longDone >= 3 {
				continue
			}
			longDone++
			v := c.G.Value(t, Canon)
			v[f.Name] = make([]int, 300000)
			w, err := enc(t, v)
			if err != nil {
				return err
			}
			ops := []Op{{Op: "load", B: "big", Bytes: w}, {Op: "decode", B: "big", O: "r0", T: t, Fresh: true, Meter: true, Tag: "long-legitimate-text"}}
			small := c.G.Value(t, Canon)
			small[f.Name] = []int{65}
			w2, err := enc(t, small)
			if err != nil {
				return err
			}
			if sl := SlotMap(t, small, w2); sl != nil {
				for p := 0; p+4 <= len(w2); p++ {
					if sl[p] == 'p' && (p == 0 || sl[p-1] != 'p') {
						for k, claim := range []int{262144, 100000, 299999} {
							x := append([]int{}, w2[:p]...)
							x = append(x, (claim>>24)&255, (claim>>16)&255, (claim>>8)&255, claim&255, 1, 2, 3)
							b := fmt.Sprintf("h%d_%d", p, k)
							ops = append(ops, Op{Op: "load", B: b, Bytes: x}, Op{Op: "decode", B: b, O: "r", T: t, Fresh: true, Meter: true, Tag: "claim-below-earlier-text"})
						}
					}
				}
			}
			if err := c.Run(ops); err != nil {
				return err
			}
		}
		nemit := 0
		emit := func(w []int, tag string) error {
			nemit++
			switch {
			case nemit%5 == 3:
				// a recycled receive buffer: a large message went through it before (capacity 1 MiB), then Reset
				return c.Run([]Op{{Op: "fill", B: "b", Args: map[string]any{"runs": []any{map[string]any{"b": 0, "n": 1 << 20}}}}, {Op: "reset", B: "b"},
					{Op: "write", B: "b", Bytes: w}, {Op: "decode", B: "b", O: "r", T: t, Fresh: true, Meter: true, Tag: tag + "+roomy-buffer"}})
			case nemit%5 == 4:
				// a receiver that is reused: the same bytes are given twice to one object
				return c.Run([]Op{{Op: "load", B: "b", Bytes: w}, {Op: "decode", B: "b", O: "r", T: t, Fresh: true, Meter: true, Tag: tag},
					{Op: "load", B: "b2", Bytes: w}, {Op: "decode", B: "b2", O: "r", T: t, Meter: true, Tag: tag + "+same-receiver-again"}})
			}
			return c.Run([]Op{{Op: "load", B: "b", Bytes: w}, {Op: "decode", B: "b", O: "r", T: t, Fresh: true, Meter: true, Tag: tag}})
		}
		for i := 0; i < c.N; i++ {
			v := c.G.Value(t, Canon)
			w, err := enc(t, v)
			if err != nil {
				return err
			}
			slots := SlotMap(t, v, w)
			// prefix maximisation at every prefix position
			if slots != nil {
				for p := 0; p < len(w); p++ {
					if slots[p] != 'p' || (p > 0 && slots[p-1] == 'p') {
						continue
					}
					q := p
					for q < len(w) && slots[q] == 'p' {
						q++
					}
					// counts at which count x element-size wraps around 2^16 / 2^32 (a bound computed in the prefix type)
					if q-p == 2 {
						le := S.Protocols[S.Types[t].Proto].Endian == "LE"
						for _, es := range []int{2, 3, 4, 8, 10, 12, 16} {
							for k := 1; k <= 2; k++ {
								cnt := (k*65536 + es - 1) / es
								if cnt > 65535 {
									continue
								}
								x := append([]int{}, w[:p]...)
								if le {
									x = append(x, cnt&255, cnt>>8)
								} else {
									x = append(x, cnt>>8, cnt&255)
								}
								x = append(x, 1, 2, 3, 4, 5, 6, 7, 8)
								if err := emit(x, "count-wrap-point"); err != nil {
									return err
								}
							}
						}
					}
					for variant := 0; variant < 3; variant++ {
						x := append([]int{}, w...)
						for j := p; j < q; j++ {
							x[j] = 0xff
						}
						switch variant {
						case 1: // 0x7f.. (largest positive when read signed), tail cut
							x[p], x[q-1] = 0x7f, 0x7f
						case 2:
							x[p], x[q-1] = 0xff, 0xfe
						}
						cut := q + r.Intn(8)
						if cut > len(x) {
							cut = len(x)
						}
						if err := emit(x[:cut], "prefix-max"); err != nil {
							return err
						}
					}
				}
			}
			// the self-computed length field set to hostile values (whole frame present)
			if slots != nil {
				for p := 0; p+4 <= len(w); p++ {
					if slots[p] != 'n' || (p > 0 && slots[p-1] == 'n') {
						continue
					}
					for _, pat := range [][]int{{0xff, 0xff, 0xff, 0xff}, {0x7f, 0xff, 0xff, 0xff}, {0x80, 0, 0, 0}, {0, 0, 0, 5}, {5, 0, 0, 0}, {0, 0, 1, 0}, {0, 1, 0, 0}} {
						x := append([]int{}, w...)
						copy(x[p:p+4], pat)
						if err := emit(x, "length-field"); err != nil {
							return err
						}
					}
					// one more / one less than the truth
					for _, d := range []int{1, -1} {
						x := append([]int{}, w...)
						x[p+3] = (x[p+3] + d + 256) % 256
						x[p] = (x[p] + d + 256) % 256
						if err := emit(x, "length-field"); err != nil {
							return err
						}
					}
				}
			}
			// the discriminator slot blanked / zeroed / maximal (a key that trims to the empty text, etc.)
			if slots != nil {
				for _, fill := range []int{0x20, 0x00, 0xff, 0x30} {
					x := append([]int{}, w...)
					hit := false
					for p := range x {
						if slots[p] == 'k' {
							x[p] = fill
							hit = true
						}
					}
					if hit {
						if err := emit(x, "key-blank"); err != nil {
							return err
						}
					}
				}
				// keys a lenient numeric parser would take for a registered one
				for _, pat := range [][]int{{'-', '0', '1'}, {'+', '1', '0'}, {'-', '9', '9'}, {' ', '1', '0'}, {'1', 'e', '1'}, {'0', 'x', '1'}, {'+', '5', '1'}, {'-', '1', '0'}} {
					x := append([]int{}, w...)
					k := 0
					for p := range x {
						if slots[p] == 'k' && k < len(pat) {
							x[p] = pat[k]
							k++
						}
					}
					if k == len(pat) {
						if err := emit(x, "key-signed"); err != nil {
							return err
						}
					}
				}
			}
			// truncation
			if len(w) > 0 {
				if err := emit(w[:r.Intn(len(w))], "truncated"); err != nil {
					return err
				}
			}
			// bit flips
			x := append([]int{}, w...)
			for k := 0; k < 1+r.Intn(3) && len(x) > 0; k++ {
				x[r.Intn(len(x))] ^= 1 << uint(r.Intn(8))
			}
			if err := emit(x, "bitflip"); err != nil {
				return err
			}
			// splice with another type's encoding
			all := TypeNames()
			t2 := all[r.Intn(len(all))]
			w2, err := enc(t2, c.G.Value(t2, Canon))
			if err != nil {
				return err
			}
			if len(w) > 0 && len(w2) > 0 {
				sp := append(append([]int{}, w[:r.Intn(len(w))]...), w2[r.Intn(len(w2)):]...)
				if err := emit(sp, "splice"); err != nil {
					return err
				}
			}
			// random bytes
			rb := c.junk(r.Intn(40))
			if r.Intn(2) == 0 {
				for j := range rb {
					if r.Intn(2) == 0 {
						rb[j] = 0xff
					}
				}
			}
			if err := emit(rb, "random"); err != nil {
				return err
			}
		}
		// all-ones and all-zero inputs of a few lengths
		for _, n := range []int{0, 1, 2, 3, 4, 7, 8, 12, 16, 64, 700, 2500} {
			for _, b := range []int{0xff, 0x00, 0x80, 0x20, 0x30} {
				x := make([]int, n)
				for j := range x {
					x[j] = b
				}
				if err := emit(x, "constant"); err != nil {
					return err
				}
			}
		}
	}
	return nil
}

// Hostile inputs for the prefixed READ primitives (every prefix width, incl. 8-bit and 64-bit).
func driveHostilePrims(c *DriverCtx) error {
	type rd struct {
		fn   string
		args map[string]any
	}
	for _, pw := range []int{1, 2, 4, 8} {
		for _, le := range []bool{false, true} {
			rds := []rd{
				{"ReadString", map[string]any{}},
				{"ReadBasicTypeList", map[string]any{"ek": "i64"}},
				{"ReadBasicTypeList", map[string]any{"ek": "u8"}},
				{"ReadFixedStringList", map[string]any{"n": 8}},
				{"ReadFixedStringListTrimPadding", map[string]any{"n": 1, "pad": 0x30, "left": true}},
				{"ReadStringList", map[string]any{"pw2": 2}},
				{"ReadStringList", map[string]any{"pw2": 8}},
				{"ReadObjectList", map[string]any{"t": "sample.SubPacket"}},
				{"ReadObjectList", map[string]any{"t": "szse.PlatformPartition"}},
			}
			for _, x := range rds {
				pfx := [][]int{}
				ff := make([]int, pw)
				for j := range ff {
					ff[j] = 0xff
				}
				pfx = append(pfx, ff)
				h := make([]int, pw) // 0x80 00 .. : negative when converted to a signed int of the same width
				if le {
					h[pw-1] = 0x80
				} else {
					h[0] = 0x80
				}
				pfx = append(pfx, h)
				s := make([]int, pw) // 0x7f ff ..
				for j := range s {
					s[j] = 0xff
				}
				if le {
					s[pw-1] = 0x7f
				} else {
					s[0] = 0x7f
				}
				pfx = append(pfx, s)
				pfx = append(pfx, prefixBytes(5, pw, le), prefixBytes(65535%(1<<uint(8*minInt(pw, 3))), pw, le))
				for _, p := range pfx {
					for _, tail := range [][]int{{}, {1, 2, 3}, c.junk(10)} {
						a := map[string]any{"pw": pw, "le": le}
						for k, v := range x.args {
							a[k] = v
						}
						in := append(append([]int{}, p...), tail...)
						if x.fn == "ReadStringList" && len(tail) > 0 {
							// inner prefix maximal as well
							in = append(append(prefixBytes(1, pw, le), ff...), ff...)
						}
						ops := []Op{{Op: "load", B: "b", Bytes: in}, {Op: "prim", B: "b", Fn: x.fn, Args: a, Meter: true}}
						if err := c.Run(ops); err != nil {
							return err
						}
					}
				}
			}
		}
	}
	return nil
}

func minInt(a, b int) int {
	if a < b {
		return a
	}
	return b
}

func init() {
	Drivers["hostile"] = driveHostile
	Drivers["hostile-prims"] = driveHostilePrims
}

// Legitimate (canonical, also large) messages decoded with the allocation meter on: the
// budget of C10 must hold for them (guards the check against false alarms).
func driveRoundtripMeter(c *DriverCtx) error {
	for _, t := range c.types() {
		for i := 0; i < c.N; i++ {
			v := c.G.Value(t, Canon)
			ops := []Op{{Op: "new", O: "m", V: v}, {Op: "encode", B: "b", O: "m"}, {Op: "decode", B: "b", O: "r", T: t, Fresh: true, Meter: true}}
			if err := c.Run(ops); err != nil {
				return err
			}
		}
	}
	return nil
}

func init() { Drivers["roundtrip-meter"] = driveRoundtripMeter }

// Long frames (C05): the checksummed frame types with bodies whose lists have hundreds of
// 0xFF-heavy elements, so that byte sums run far beyond 16 bits; into empty and non-empty buffers.
func driveBigFrames(c *DriverCtx) error {
	for _, ft := range c.types() {
		bf := BodyField(ft)
		if bf == nil {
			continue
		}
		tab := S.Tables[bf.Table]
		for _, e := range tab.Entries {
			hasList := false
			for _, f := range S.Types[e.Type].Fields {
				if f.Kind == "list" || f.Kind == "objlist" {
					hasList = true
				}
			}
			if !hasList {
				continue
			}
			for i := 0; i < c.N; i++ {
				c.G.Big = []int{40, 200, 600, 1200}[i%4]
				c.G.AllOnes = i%2 == 1 // uninterrupted runs of 0xFF, thousands of bytes long
				body := c.G.Value(e.Type, Canon)
				c.G.Big = 0
				c.G.AllOnes = false
				v := c.G.Value(ft, Canon)
				v[tab.KeyField] = e.Key
				v[bf.Name] = body
				ops := []Op{{Op: "new", O: "m", V: v}, {Op: "copy", O: "ref", From: "m"}, {Op: "encode", B: "bref", O: "ref", Tag: "reference"}}
				switch i % 3 {
				case 1:
					ops = append(ops, Op{Op: "write", B: "b", Bytes: c.junk(5)}, Op{Op: "next", B: "b", K: 2})
				case 2: // a recycled, roomy buffer
					ops = append(ops, Op{Op: "write", B: "b", Bytes: make([]int, 20000)}, Op{Op: "next", B: "b", K: 20000})
				}
				ops = append(ops, Op{Op: "encode", B: "b", O: "m", Tag: "big-frame"}, Op{Op: "encode", B: "b", O: "m", Tag: "again"},
					Op{Op: "decode", B: "b", O: "r", T: ft, Fresh: true}, Op{Op: "encode", B: "b2", O: "r", Tag: "reencode"})
				if err := c.Run(ops); err != nil {
					return err
				}
			}
		}
	}
	return nil
}

func init() { Drivers["big-frames"] = driveBigFrames }

// Encoding depends only on the message (C06), across OBJECTS: after other messages of the same
// type were encoded and decoded - also into the very object that was encoded first - a freshly
// built equal message must still encode to the same bytes (no state shared between objects).
func driveEncodeReuse(c *DriverCtx) error {
	for _, t := range c.types() {
		for i := 0; i < c.N; i++ {
			mode := Canon
			if i%2 == 1 {
				mode = Wild // sparse values: nil bodies / nil nested parts
			}
			v := c.G.Value(t, mode)
			if mode == Wild { // sparse: every nested part / body / extension the caller may leave out is left out
				for _, f := range S.Types[t].Fields {
					if f.Kind == "obj" && !f.ByValue {
						v[f.Name] = nilObj
					}
					if f.Kind == "body" {
						tab := S.Tables[f.Table]
						// (the key depends on i/4 only: the sparse histories 4k+1 and 4k+3 of a type meet on one key,
						// which matters when they are run by different goroutines)
						c.G.R.Intn(len(tab.Entries))
						v[f.Key] = tab.Entries[(i/4)%len(tab.Entries)].Key
						v[f.Name] = nilObj
					}
				}
			}
			other := c.G.Value(t, Canon)
			ops := []Op{
				{Op: "new", O: "a", V: v}, {Op: "encode", B: "ba", O: "a", Tag: "reference"},
				{Op: "new", O: "p", V: other}, {Op: "encode", B: "bp", O: "p"},
			}
			if i%4 >= 2 {
				// the caller goes on working with the object it just sent (whatever Encode attached to it included)
				ops = append(ops, Op{Op: "mutate", O: "a"})
			} else {
				ops = append(ops, Op{Op: "decode", B: "bp", O: "a", T: t, Tag: "into-encoded-object"}, Op{Op: "mutate", O: "a"})
			}
			ops = append(ops, Op{Op: "new", O: "c", V: v}, Op{Op: "encode", B: "bc", O: "c", Tag: "equal-message-later"})
			if err := c.Run(ops); err != nil {
				return err
			}
		}
	}
	return nil
}

// Long lists (C07/C01): lists whose count x element size crosses 65,536 (the points where an
// offset computed in the prefix type would wrap), followed by a second message in the stream.
func driveLongLists(c *DriverCtx) error {
	type cs struct {
		t, f string
		w    int
		ns   []int
	}
	cases := []cs{
		{"sse.ExecRptInfo", "SetId", 4, []int{16383, 16384, 40000}},
		{"sample.BasicPacket", "FieldU64List", 8, []int{8191, 8192}},
		{"sample.BasicPacket", "FieldI16List", 2, []int{32767, 32768}},
	}
	if c.N > 1 {
		cases = append(cases, cs{"sample.BasicPacket", "FieldF64List", 8, []int{8192, 20000}}, cs{"sample.BasicPacket", "FieldI32List", 4, []int{16384, 65535}},
			cs{"sample.BasicPacket", "FieldU8List", 1, []int{65535}}, cs{"sample.SubPacket", "FieldI16List", 2, []int{32768, 65535}},
			cs{"sse.ExecRptInfo", "SetId", 4, []int{16385, 32768, 65535}})
	}
	for _, k := range cases {
		for _, n := range k.ns {
			c.G.Small = true
			v := c.G.Value(k.t, Canon)
			tail := c.G.Value("sse.Logout", Canon)
			c.G.Small = false
			el := make([]int, k.w)
			for j := range el {
				el[j] = 1 + j
			}
			lst := make([]any, n)
			for j := range lst {
				lst[j] = el
			}
			v[k.f] = lst
			ops := []Op{{Op: "new", O: "m", V: v}, {Op: "encode", B: "b", O: "m", Tag: fmt.Sprintf("%s.%s len=%d", k.t, k.f, n)},
				{Op: "new", O: "m2", V: tail}, {Op: "encode", B: "b", O: "m2"},
				{Op: "decode", B: "b", O: "r", T: k.t, Fresh: true}, {Op: "decode", B: "b", O: "r2", T: "sse.Logout", Fresh: true}, {Op: "peek", B: "b"}}
			if err := c.Run(ops); err != nil {
				return err
			}
		}
	}
	return nil
}

func init() {
	Drivers["encode-reuse"] = driveEncodeReuse
	Drivers["long-lists"] = driveLongLists
	Drivers["list-counts"] = driveListCounts
}

// Trim sides: ONE wire image read as fixed-width text with different pad sides (and pad bytes),
// each reading in a history of its own - whatever a reading returns must depend on its own
// (bytes, width, pad, side) only, also when another goroutine has just read the same bytes the
// other way. Primitive level for arbitrary combinations, message level for the field pairs of
// the pinned schema that share width and pad byte but differ in side.
func driveTrimSides(c *DriverCtx) error {
	r := c.G.R
	image := func(n, pad int) []int {
		for {
			w := make([]int, n)
			some := false
			for i := range w {
				switch r.Intn(3) {
				case 0:
					w[i] = pad
				case 1:
					w[i], some = 0x35, true
				default:
					w[i], some = 0x41+r.Intn(3), true
				}
			}
			if some {
				return w
			}
		}
	}
	ltrim := func(w []int, pad int) []int {
		i := 0
		for i < len(w) && w[i] == pad {
			i++
		}
		return append([]int{}, w[i:]...)
	}
	rtrim := func(w []int, pad int) []int {
		j := len(w)
		for j > 0 && w[j-1] == pad {
			j--
		}
		return append([]int{}, w[:j]...)
	}
	for rep := 0; rep < c.N*6; rep++ {
		n := 1 + r.Intn(12)
		pad := []int{0x20, 0x30, 0x00}[r.Intn(3)]
		w := image(n, pad)
		for _, cfg := range []struct {
			pad  int
			left bool
		}{{pad, true}, {pad, false}, {0x2a, true}, {pad, false}, {pad, true}} {
			a := map[string]any{"n": n, "pad": cfg.pad, "left": cfg.left}
			if err := c.Run([]Op{{Op: "load", B: "b", Bytes: w}, {Op: "prim", B: "b", Fn: "ReadFixedStringTrimPadding", Args: a, Tag: "same-image-other-side"},
				{Op: "load", B: "b2", Bytes: w}, {Op: "prim", B: "b2", Fn: "ReadFixedStringTrimPadding", Args: a}}); err != nil {
				return err
			}
		}
	}
	// message level
	type fld struct {
		t, f string
		list bool
	}
	groups := map[[2]int]map[bool][]fld{}
	for _, tn := range TypeNames() {
		for _, f := range S.Types[tn].Fields {
			e, isList := &f, false
			if f.Kind == "list" && f.Elem != nil && f.Elem.Kind == "fixed" {
				e, isList = f.Elem, true
			} else if f.Kind != "fixed" {
				continue
			}
			k := [2]int{e.N, e.Pad}
			if groups[k] == nil {
				groups[k] = map[bool][]fld{}
			}
			groups[k][e.Left] = append(groups[k][e.Left], fld{tn, f.Name, isList})
		}
	}
	keys := [][2]int{}
	for k, g := range groups {
		if len(g[true]) > 0 && len(g[false]) > 0 {
			keys = append(keys, k)
		}
	}
	sort.Slice(keys, func(i, j int) bool { return keys[i][0]*256+keys[i][1] < keys[j][0]*256+keys[j][1] })
	for _, k := range keys {
		g := groups[k]
		for rep := 0; rep < c.N*4; rep++ {
			w := image(k[0], k[1])
			for _, left := range []bool{true, false, true, false} {
				fl := g[left][r.Intn(len(g[left]))]
				c.G.Small = true
				v := c.G.Value(fl.t, Canon)
				c.G.Small = false
				var val []int
				if left {
					val = ltrim(w, k[1])
				} else {
					val = rtrim(w, k[1])
				}
				if fl.list {
					v[fl.f] = []any{val, val}
				} else {
					v[fl.f] = val
				}
				if err := c.Run([]Op{{Op: "new", O: "m", V: v}, {Op: "encode", B: "b", O: "m", Tag: fmt.Sprintf("%s.%s same-image-other-side", fl.t, fl.f)},
					{Op: "decode", B: "b", O: "r", T: fl.t, Fresh: true}}); err != nil {
					return err
				}
			}
		}
	}
	return nil
}

func init() { Drivers["trim-sides"] = driveTrimSides }

// FencepostCounts: small counts densely, then the neighbourhoods of the multiples of 128 and
// the round decimal numbers - where chunked loops, scratch buffers and fast paths have their edges.
func FencepostCounts(thorough bool) []int {
	counts := []int{}
	for n := 0; n <= 40; n++ {
		counts = append(counts, n)
	}
	for k := 1; k <= 16; k++ {
		counts = append(counts, 128*k-1, 128*k, 128*k+1)
	}
	for k := 1; k <= 20; k++ {
		if k%5 == 0 || thorough {
			counts = append(counts, 100*k-1, 100*k, 100*k+1)
		} else {
			counts = append(counts, 100*k)
		}
	}
	counts = append(counts, 4095, 4096)
	if thorough {
		counts = append(counts, 3000, 4097, 5000, 8191, 8192, 8193, 10000)
	}
	return counts
}

// Message-level sweep over list COUNTS: every list field of every type (31 in the pinned schema)
// with every fencepost count of small elements; encoded into a fresh buffer and decoded back.
func driveListCounts(c *DriverCtx) error {
	thorough := c.N > 1
	for _, tn := range c.types() {
		td := S.Types[tn]
		for _, f := range td.Fields {
			if f.Kind != "list" && f.Kind != "objlist" {
				continue
			}
			for k, n := range FencepostCounts(thorough) {
				c.G.Small = true
				v := c.G.Value(tn, Canon)
				var el any
				switch {
				case f.Kind == "objlist":
					el = c.G.Value(f.Type, Canon)
				case f.Elem.Kind == "int":
					b := make([]int, f.Elem.W)
					for j := range b {
						b[j] = 1 + j + k%7
					}
					el = b
				case f.Elem.Kind == "fixed":
					b := make([]int, f.Elem.N-k%2)
					for j := range b {
						b[j] = 0x61 + (j+k)%26
					}
					if len(b) > 0 && f.Elem.N == 1 {
						b[0] = 0x41 + k%26
					}
					el = b
				default: // prefixed text
					el = []int{0x41 + k%26}
				}
				c.G.Small = false
				lst := make([]any, n)
				for j := range lst {
					lst[j] = el
				}
				v[f.Name] = lst
				ops := []Op{{Op: "new", O: "m", V: v}, {Op: "encode", B: "b", O: "m", Tag: fmt.Sprintf("%s.%s count=%d", tn, f.Name, n)},
					{Op: "decode", B: "b", O: "r", T: tn, Fresh: true}, {Op: "peek", B: "b"}}
				if err := c.Run(ops); err != nil {
					return err
				}
			}
		}
	}
	return nil
}

// Registry x frames: a checksummed frame encoded while its service is removed from the registry
// keeps the caller's checksum; after the service is registered again it is computed as usual.
func driveRegistryFrames(c *DriverCtx) error {
	for _, ft := range c.types() {
		alg := checksumAlgOf(ft)
		if alg == "" {
			continue
		}
		for i := 0; i < c.N; i++ {
			c.G.Small = true
			v := c.G.Value(ft, Canon)
			c.G.Small = false
			ops := []Op{{Op: "new", O: "m", V: v}, {Op: "copy", O: "m2", From: "m"},
				{Op: "regremove", Alg: alg},
				{Op: "encode", B: "b", O: "m", Tag: "service-removed"},
				{Op: "decode", B: "b", O: "r", T: ft, Fresh: true},
				{Op: "encode", B: "b2", O: "r", Tag: "reencode-service-removed"},
				{Op: "regrestore", Alg: alg},
				{Op: "encode", B: "b3", O: "m2", Tag: "service-restored"},
				{Op: "decode", B: "b3", O: "r3", T: ft, Fresh: true},
			}
			if err := c.Run(ops); err != nil {
				return err
			}
		}
	}
	return nil
}

func init() { Drivers["registry-frames"] = driveRegistryFrames }

// Dynamic registration (the exported Registry...Factory functions): for every table one NEW key
// and one OVERRIDDEN key are registered at the start of the process; afterwards every table is
// exercised both ways. The orchestrator patches the pinned tables with the logged registrations,
// so the specification judges the run against the tables as the application changed them.
// Must run in its own process (registrations are global and cannot be undone).
func driveTablesDynamic(c *DriverCtx) error {
	type change struct {
		table string
		key   []int
		typ   string
	}
	changes := []change{}
	regOps := []Op{}
	for _, tn := range TableNames() {
		tab := S.Tables[tn]
		var kf *Field
		for i := range S.Types[tab.Owner].Fields {
			if S.Types[tab.Owner].Fields[i].Name == tab.KeyField {
				kf = &S.Types[tab.Owner].Fields[i]
			}
		}
		// a new key
		var nk []int
		if tab.KeyKind == "int" {
			nk = make([]int, kf.W)
			nk[kf.W-1] = 0x7b
			nk[0] = 0x11
		} else {
			nk = []int{'Z', '9', 'Q'}
		}
		changes = append(changes, change{tn, nk, tab.Entries[0].Type})
		// an overridden key: an existing key now selects another registered body type (if the table has two)
		for _, e := range tab.Entries[1:] {
			if e.Type != tab.Entries[0].Type {
				changes = append(changes, change{tn, tab.Entries[0].Key, e.Type})
				break
			}
		}
	}
	for _, ch := range changes {
		regOps = append(regOps, Op{Op: "regfactory", From: ch.table, Bytes: ch.key, T: ch.typ})
	}
	if err := c.Run(regOps); err != nil {
		return err
	}
	for _, tn := range TableNames() {
		tab := S.Tables[tn]
		owner := tab.Owner
		bf := BodyField(owner)
		mk := func(key []int, body map[string]any) map[string]any {
			v := c.G.Value(owner, Canon)
			v[tab.KeyField] = key
			if body == nil {
				v[bf.Name] = nilObj
			} else {
				v[bf.Name] = body
			}
			return v
		}
		cases := []change{}
		for _, ch := range changes {
			if ch.table == tn {
				cases = append(cases, ch)
			}
		}
		// an untouched key of the same table
		if len(tab.Entries) > 1 {
			e := tab.Entries[len(tab.Entries)-1]
			cases = append(cases, change{tn, e.Key, e.Type})
		}
		for _, cs := range cases {
			for i := 0; i < c.N; i++ {
				ops := []Op{{Op: "new", O: "m", V: mk(cs.key, c.G.Value(cs.typ, Canon))}, {Op: "encode", B: "b", O: "m"},
					{Op: "decode", B: "b", O: "r", T: owner, Fresh: true, Tag: "dynamic-table"},
					{Op: "new", O: "m2", V: mk(cs.key, nil)}, {Op: "encode", B: "b2", O: "m2", Tag: "nil-body"},
					{Op: "decode", B: "b2", O: "r2", T: owner, Fresh: true, Tag: "dynamic-table"}}
				if err := c.Run(ops); err != nil {
					return err
				}
			}
		}
	}
	return nil
}

func init() { Drivers["tables-dynamic"] = driveTablesDynamic }

// Neighbouring values (C02/C08): after a message has been decoded, messages that differ from it in a
// single bit of one fixed-width text are decoded in the same process - a cache or intern table
// keyed too coarsely answers the second with the first.
func driveNeighbours(c *DriverCtx) error {
	for _, t := range c.types() {
		td := S.Types[t]
		fixed := []Field{}
		keys := map[string]bool{}
		for _, f := range td.Fields {
			if f.Kind == "body" {
				keys[f.Key] = true
			}
		}
		for _, f := range td.Fields {
			if f.Kind == "fixed" && f.N >= 1 && f.N <= 16 && !keys[f.Name] {
				fixed = append(fixed, f)
			}
		}
		if len(fixed) == 0 {
			continue
		}
		for i := 0; i < c.N; i++ {
			f := fixed[(i+len(t))%len(fixed)]
			c.G.Small = true
			v := c.G.Value(t, Canon)
			c.G.Small = false
			base := make([]int, f.N)
			for j := range base {
				base[j] = 0x30 + c.G.R.Intn(10)
			}
			ops := []Op{}
			add := func(txt []int, k int) {
				v2 := map[string]any{}
				for kk, vv := range v {
					v2[kk] = vv
				}
				v2[f.Name] = txt
				o, b := fmt.Sprintf("m%d", k), fmt.Sprintf("b%d", k)
				ops = append(ops, Op{Op: "new", O: o, V: v2}, Op{Op: "encode", B: b, O: o}, Op{Op: "decode", B: b, O: "r", T: t, Fresh: true, Tag: "neighbour"},
					Op{Op: "encode", B: b + "x", O: "r", Tag: "reencode"})
			}
			add(base, 0)
			k := 1
			for j := 0; j < f.N; j++ {
				for bit := 0; bit < 8; bit++ {
					x := append([]int{}, base...)
					x[j] ^= 1 << uint(bit)
					if (f.Left && x[0] == f.Pad) || (!f.Left && x[f.N-1] == f.Pad) {
						continue
					}
					add(x, k)
					k++
					if j > 1 && bit%3 != 0 { // all bits of the first two bytes, every third bit of the others
						continue
					}
				}
			}
			add(base, k)
			if err := c.Run(ops); err != nil {
				return err
			}
		}
	}
	return nil
}

func init() { Drivers["neighbours"] = driveNeighbours }

// Huge bodies (C04): frames whose body carries one text of 64 KiB .. 40 MiB, so that the body length
// needs its third and fourth byte; also into a buffer that already holds unread bytes.
func driveHugeFrames(c *DriverCtx) error {
	cases := []struct{ frame, body, field string }{
		{"risk.RcBinary", "risk.RiskResult", "RiskReason"},
		{"risk.RcBinary", "risk.NewOrder", "Account"},
		{"szse.SzseBinary", "szse.Extend206302", "ImcrejectText"},
	}
	sizes := []int{65535, 65536, 70000, 1 << 20, 1<<24 - 20, 1<<24 - 19, 1 << 24, 1<<24 + 12345}
	if c.N > 1 {
		sizes = append(sizes, 1<<25+7, 40000000)
	}
	for _, cs := range cases {
		if _, ok := Ctors[cs.body]; !ok {
			continue
		}
		bf := BodyField(cs.frame)
		tab := S.Tables[bf.Table]
		var key []int
		for _, e := range tab.Entries {
			if e.Type == cs.body {
				key = e.Key
			}
		}
		if key == nil {
			continue
		}
		for i, n := range sizes {
			c.G.Small = true
			v := c.G.Value(cs.frame, Canon)
			c.G.Small = false
			v[tab.KeyField] = key
			v[bf.Name] = nilObj
			ops := []Op{}
			if i%2 == 1 {
				ops = append(ops, Op{Op: "write", B: "b", Bytes: c.junk(7)}, Op{Op: "next", B: "b", K: 3})
			}
			ops = append(ops, Op{Op: "encodehuge", B: "b", V: v, T: cs.body, From: cs.field, Alg: bf.Name, K: n, Bytes: []int{0x41 + i}, Tag: fmt.Sprintf("%s body text of %d bytes", cs.frame, n)})
			if err := c.Run(ops); err != nil {
				return err
			}
		}
	}
	return nil
}

func init() { Drivers["huge-frames"] = driveHugeFrames }
