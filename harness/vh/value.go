// Package vh is the conformance harness: it moves values between the real Go types of
// fin-proto-go and the JSON value trees that the TLA+ specification reads and writes.
//
// Value tree (DESIGN.md §2.3): a message is an object keyed by Go field name with a "_t"
// type tag; integers and floats are their bit pattern as an array of bytes, most significant
// first (computed by shifts, not with encoding/binary); text is an array of bytes; lists are
// arrays; nil pointers / nil interfaces are {"_t":"nil"}; an absent and an empty list are [].
package vh

import (
	"bytes"
	"fmt"
	"math"
	"reflect"
	"sort"
)

// Codec is what every message type offers.
type Codec interface {
	Encode(buf *bytes.Buffer) error
	Decode(buf *bytes.Buffer) error
}

// subOrderLike adapts hand-written types whose Encode returns nothing.
type encNoErr interface {
	Encode(buf *bytes.Buffer)
	Decode(buf *bytes.Buffer) error
}

type noErrAdapter struct{ e encNoErr }

func (a noErrAdapter) Encode(buf *bytes.Buffer) error { a.e.Encode(buf); return nil }
func (a noErrAdapter) Decode(buf *bytes.Buffer) error { return a.e.Decode(buf) }

// AsCodec returns the Codec view of a message object.
func AsCodec(v any) (Codec, error) {
	if c, ok := v.(Codec); ok {
		return c, nil
	}
	if c, ok := v.(encNoErr); ok {
		return noErrAdapter{c}, nil
	}
	return nil, fmt.Errorf("%T is not a codec", v)
}

var typeNames = map[reflect.Type]string{}

func init() {
	for n, c := range Ctors {
		typeNames[reflect.TypeOf(c()).Elem()] = n
	}
}

// TypeNames returns all pinned type names, sorted.
func TypeNames() []string {
	out := make([]string, 0, len(Ctors))
	for n := range Ctors {
		out = append(out, n)
	}
	sort.Strings(out)
	return out
}

// NameOf returns the pinned name of the dynamic type of v ("" if unknown, "nil" for nil).
func NameOf(v any) string {
	if v == nil {
		return "nil"
	}
	rv := reflect.ValueOf(v)
	if rv.Kind() == reflect.Ptr {
		if rv.IsNil() {
			return "nil"
		}
		rv = rv.Elem()
	}
	if n, ok := typeNames[rv.Type()]; ok {
		return n
	}
	return "?" + rv.Type().String()
}

func bytesOf(u uint64, w int) []int {
	out := make([]int, w)
	for i := w - 1; i >= 0; i-- {
		out[i] = int(u & 0xff)
		u >>= 8
	}
	return out
}

func strBytes(s string) []int {
	out := make([]int, len(s))
	for i := 0; i < len(s); i++ {
		out[i] = int(s[i])
	}
	return out
}

// B2I converts bytes to the JSON representation.
func B2I(b []byte) []int {
	out := make([]int, len(b))
	for i, x := range b {
		out[i] = int(x)
	}
	return out
}

// I2B is the inverse of B2I.
func I2B(a []int) []byte {
	out := make([]byte, len(a))
	for i, x := range a {
		out[i] = byte(x)
	}
	return out
}

var nilObj = map[string]any{"_t": "nil"}

// Dump projects a message object to its value tree.
func Dump(v any) any {
	if v == nil {
		return nilObj
	}
	return dumpValue(reflect.ValueOf(v))
}

func dumpValue(rv reflect.Value) any {
	switch rv.Kind() {
	case reflect.Interface:
		if rv.IsNil() {
			return nilObj
		}
		return dumpValue(rv.Elem())
	case reflect.Ptr:
		if rv.IsNil() {
			return nilObj
		}
		return dumpValue(rv.Elem())
	case reflect.Struct:
		name, ok := typeNames[rv.Type()]
		if !ok {
			name = "?" + rv.Type().String()
		}
		m := map[string]any{"_t": name}
		for i := 0; i < rv.NumField(); i++ {
			f := rv.Type().Field(i)
			if !f.IsExported() {
				continue
			}
			m[f.Name] = dumpValue(rv.Field(i))
		}
		return m
	case reflect.String:
		return strBytes(rv.String())
	case reflect.Int8, reflect.Int16, reflect.Int32, reflect.Int64:
		return bytesOf(uint64(rv.Int()), int(rv.Type().Size()))
	case reflect.Uint8, reflect.Uint16, reflect.Uint32, reflect.Uint64:
		return bytesOf(rv.Uint(), int(rv.Type().Size()))
	case reflect.Float32:
		if f, ok := rv.Interface().(float32); ok { // no float32->float64 conversion: keeps signalling NaNs
			return bytesOf(uint64(math.Float32bits(f)), 4)
		}
		return bytesOf(uint64(math.Float32bits(float32(rv.Float()))), 4)
	case reflect.Float64:
		return bytesOf(math.Float64bits(rv.Float()), 8)
	case reflect.Slice:
		out := make([]any, rv.Len())
		for i := 0; i < rv.Len(); i++ {
			out[i] = dumpValue(rv.Index(i))
		}
		return out
	}
	panic(fmt.Sprintf("dump: unsupported kind %s", rv.Kind()))
}

func toInts(x any) ([]int, error) {
	switch a := x.(type) {
	case []int:
		return a, nil
	case []any:
		out := make([]int, len(a))
		for i, e := range a {
			switch n := e.(type) {
			case float64:
				out[i] = int(n)
			case int:
				out[i] = n
			default:
				return nil, fmt.Errorf("not a byte: %T", e)
			}
		}
		return out, nil
	case nil:
		return nil, nil
	}
	return nil, fmt.Errorf("not a byte array: %T", x)
}

func toUint(x any) (uint64, error) {
	a, err := toInts(x)
	if err != nil {
		return 0, err
	}
	var u uint64
	for _, b := range a {
		u = u<<8 | uint64(b&0xff)
	}
	return u, nil
}

// Build creates a message object from a value tree. It is lenient about integer widths
// (the bit pattern is truncated to the Go field's width): a disagreement between the
// pinned schema and the Go struct is then visible to the specification in the dump, not
// a harness error.
func Build(tree any) (any, error) {
	m, ok := tree.(map[string]any)
	if !ok {
		return nil, fmt.Errorf("build: not an object: %T", tree)
	}
	tn, _ := m["_t"].(string)
	if tn == "nil" {
		return nil, nil
	}
	ctor, ok := Ctors[tn]
	if !ok {
		return nil, fmt.Errorf("build: unknown type %q", tn)
	}
	obj := ctor()
	if err := fill(reflect.ValueOf(obj).Elem(), m); err != nil {
		return nil, fmt.Errorf("build %s: %w", tn, err)
	}
	return obj, nil
}

func fill(rv reflect.Value, m map[string]any) error {
	for i := 0; i < rv.NumField(); i++ {
		f := rv.Type().Field(i)
		if !f.IsExported() {
			continue
		}
		x, present := m[f.Name]
		if !present {
			continue
		}
		if err := setValue(rv.Field(i), x); err != nil {
			return fmt.Errorf("field %s: %w", f.Name, err)
		}
	}
	return nil
}

func setValue(fv reflect.Value, x any) error {
	switch fv.Kind() {
	case reflect.String:
		a, err := toInts(x)
		if err != nil {
			return err
		}
		fv.SetString(string(I2B(a)))
	case reflect.Int8, reflect.Int16, reflect.Int32, reflect.Int64:
		u, err := toUint(x)
		if err != nil {
			return err
		}
		switch fv.Type().Size() {
		case 1:
			fv.SetInt(int64(int8(u)))
		case 2:
			fv.SetInt(int64(int16(u)))
		case 4:
			fv.SetInt(int64(int32(u)))
		default:
			fv.SetInt(int64(u))
		}
	case reflect.Uint8, reflect.Uint16, reflect.Uint32, reflect.Uint64:
		u, err := toUint(x)
		if err != nil {
			return err
		}
		switch fv.Type().Size() {
		case 1:
			fv.SetUint(uint64(uint8(u)))
		case 2:
			fv.SetUint(uint64(uint16(u)))
		case 4:
			fv.SetUint(uint64(uint32(u)))
		default:
			fv.SetUint(u)
		}
	case reflect.Float32:
		u, err := toUint(x)
		if err != nil {
			return err
		}
		// SetFloat goes through float64, which quiets signalling NaNs; set the value directly.
		fv.Set(reflect.ValueOf(math.Float32frombits(uint32(u))).Convert(fv.Type()))
	case reflect.Float64:
		u, err := toUint(x)
		if err != nil {
			return err
		}
		fv.SetFloat(math.Float64frombits(u))
	case reflect.Slice:
		a, ok := x.([]any)
		if !ok {
			if x == nil {
				return nil
			}
			return fmt.Errorf("not a list: %T", x)
		}
		if len(a) == 0 {
			return nil // absent and empty lists are the same
		}
		s := reflect.MakeSlice(fv.Type(), len(a), len(a))
		for i, e := range a {
			if err := setValue(s.Index(i), e); err != nil {
				return fmt.Errorf("[%d]: %w", i, err)
			}
		}
		fv.Set(s)
	case reflect.Ptr, reflect.Interface:
		obj, err := Build(x)
		if err != nil {
			return err
		}
		if obj == nil {
			return nil
		}
		ov := reflect.ValueOf(obj)
		if !ov.Type().AssignableTo(fv.Type()) {
			return fmt.Errorf("cannot assign %s to %s", ov.Type(), fv.Type())
		}
		fv.Set(ov)
	case reflect.Struct:
		m, ok := x.(map[string]any)
		if !ok {
			return fmt.Errorf("not an object: %T", x)
		}
		return fill(fv, m)
	default:
		return fmt.Errorf("unsupported kind %s", fv.Kind())
	}
	return nil
}
