package vh

import (
	"math/rand"
)

// Value generation from the pinned schema. Mode decides the domain:
//
//	Canon — values in C01's canonical domain (text fits and has no pad byte on its pad
//	        side, body matches its key, list sizes fit). The SPEC decides canonicity
//	        (Canonical(T, v) in Codec.tla); this generator only aims at it.
//	Wild  — anything constructible: over-long text, pad bytes anywhere, nil bodies,
//	        stale length/checksum.
type Mode int

const (
	Canon Mode = iota
	Wild
)

type Gen struct {
	R *rand.Rand
	// MaxList bounds ordinary list lengths (boundary lengths are drawn separately).
	MaxList int
	// Depth guard for nested objects.
	Classes map[string]int // shape-class counters: "<type>/<field>/<class>" -> hits
	Small   bool           // no long lists / long texts (keeps checksum evaluation in TLC cheap)
	Big     int            // > 0: every list gets about this many elements and numbers are 0xFF-heavy (long frames)
	AllOnes bool           // with Big: every number is all ones (long uninterrupted runs of 0xFF on the wire)
}

func NewGen(seed int64) *Gen {
	return &Gen{R: rand.New(rand.NewSource(seed)), MaxList: 3, Classes: map[string]int{}}
}

func (g *Gen) hit(t, f, class string) {
	g.Classes[t+"/"+f+"/"+class]++
}

var intPatterns = [][]int{
	{0, 0, 0, 0, 0, 0, 0, 0},
	{0xff, 0xff, 0xff, 0xff, 0xff, 0xff, 0xff, 0xff},
	{0x80, 0, 0, 0, 0, 0, 0, 0},
	{0x7f, 0xff, 0xff, 0xff, 0xff, 0xff, 0xff, 0xff},
	{0x01, 0x02, 0x03, 0x04, 0x05, 0x06, 0x07, 0x08},
	{0xfe, 0xdc, 0xba, 0x98, 0x76, 0x54, 0x32, 0x10},
	{0, 0, 0, 0, 0, 0, 0, 1},
}

var floatPatterns32 = [][]int{
	{0x7f, 0xc0, 0x00, 0x01}, // quiet NaN with payload
	{0x7f, 0x80, 0x00, 0x01}, // signalling NaN
	{0xff, 0x80, 0x00, 0x00}, // -Inf
	{0x80, 0x00, 0x00, 0x00}, // -0
	{0x00, 0x00, 0x00, 0x01}, // denormal
}
var floatPatterns64 = [][]int{
	{0x7f, 0xf8, 0, 0, 0, 0, 0, 0x01},
	{0x7f, 0xf0, 0, 0, 0, 0, 0, 0x01},
	{0xff, 0xf0, 0, 0, 0, 0, 0, 0},
	{0x80, 0, 0, 0, 0, 0, 0, 0},
	{0, 0, 0, 0, 0, 0, 0, 0x01},
}

func (g *Gen) intBytes(t, fname string, f *Field) []int {
	w := f.W
	c := g.R.Intn(12)
	if g.Big > 0 && (g.AllOnes || g.R.Intn(3) > 0) {
		c = 1 // all ones
	}
	if (f.Go == "f32" || f.Go == "f64") && c < 4 {
		g.hit(t, fname, "fspecial")
		if w == 4 {
			return append([]int{}, floatPatterns32[g.R.Intn(len(floatPatterns32))]...)
		}
		return append([]int{}, floatPatterns64[g.R.Intn(len(floatPatterns64))]...)
	}
	if c < len(intPatterns) {
		g.hit(t, fname, "ipat"+string(rune('0'+c)))
		p := intPatterns[c]
		if c == 6 { // least significant 1
			out := make([]int, w)
			out[w-1] = 1
			return out
		}
		return append([]int{}, p[:w]...)
	}
	g.hit(t, fname, "irand")
	out := make([]int, w)
	for i := range out {
		out[i] = g.R.Intn(256)
	}
	return out
}

var textAlphabet = []int{0x20, 0x30, 0x00, 0x41, 0x5a, 0x61, 0x39, 0x80, 0xc3, 0xa9, 0xff, 0x7f, 0x0a}

func (g *Gen) textByte() int {
	if g.R.Intn(4) == 0 {
		return g.R.Intn(256)
	}
	return textAlphabet[g.R.Intn(len(textAlphabet))]
}

func (g *Gen) fixedText(t, fname string, f *Field, mode Mode) []int {
	n := f.N
	var l int
	c := g.R.Intn(10)
	switch {
	case c == 0:
		l = 0
		g.hit(t, fname, "empty")
	case c <= 2:
		l = n
		g.hit(t, fname, "full")
	case c == 3 && mode == Wild:
		l = n + 1 + g.R.Intn(3)
		g.hit(t, fname, "overlong")
	default:
		if n > 0 {
			l = g.R.Intn(n + 1)
		}
		g.hit(t, fname, "partial")
	}
	out := make([]int, l)
	for i := range out {
		out[i] = g.textByte()
	}
	if c == 3 && mode == Wild && n >= 2 && g.R.Intn(2) == 0 {
		// well-formed UTF-8 that is too long, with a multi-byte character lying across the end of the field
		// (a writer that cuts "at a character boundary" emits fewer than the first N bytes)
		out = out[:0]
		for len(out) < n-1 {
			out = append(out, 0x41+g.R.Intn(26))
		}
		ch := [][]int{{0xc3, 0xa9}, {0xe4, 0xb8, 0xad}, {0xf0, 0x9f, 0x98, 0x80}}[g.R.Intn(3)]
		out = append(out, ch...)
		out = append(out, 0xe4, 0xb8, 0xad)
		g.hit(t, fname, "overlong-utf8-straddle")
		return out
	}
	// interior pad bytes are legal and interesting
	if l >= 3 && g.R.Intn(3) == 0 {
		out[1+g.R.Intn(l-2)] = f.Pad
		g.hit(t, fname, "interiorpad")
	}
	if mode == Canon && l > 0 {
		// no pad byte on the pad side
		if f.Left {
			for out[0] == f.Pad {
				out[0] = 0x41 + g.R.Intn(26)
			}
			if g.R.Intn(4) == 0 { // pad byte on the other side is fine
				out[l-1] = f.Pad
				if l == 1 {
					out[0] = 0x42
				}
				g.hit(t, fname, "otherpad")
			}
		} else {
			for out[l-1] == f.Pad {
				out[l-1] = 0x41 + g.R.Intn(26)
			}
			if g.R.Intn(4) == 0 && l > 1 {
				out[0] = f.Pad
				g.hit(t, fname, "otherpad")
			}
		}
	} else if mode == Wild && l > 0 && g.R.Intn(3) == 0 {
		if f.Left {
			out[0] = f.Pad
		} else {
			out[l-1] = f.Pad
		}
		g.hit(t, fname, "padside")
	}
	return out
}

func (g *Gen) dynText(t, fname string, mode Mode) []int {
	var l int
	switch c := g.R.Intn(8); {
	case c == 0:
		l = 0
	case c == 1 && !g.Small:
		l = 255 + g.R.Intn(3)
		g.hit(t, fname, "len255+")
	default:
		l = g.R.Intn(12)
	}
	out := make([]int, l)
	for i := range out {
		out[i] = g.textByte()
	}
	return out
}

func (g *Gen) listLen(t, fname string) int {
	if g.Big > 0 {
		g.hit(t, fname, "listhuge")
		return g.Big/2 + g.R.Intn(g.Big)
	}
	switch c := g.R.Intn(10); {
	case c == 0:
		g.hit(t, fname, "list0")
		return 0
	case c == 1:
		g.hit(t, fname, "list1")
		return 1
	case c == 2 && !g.Small:
		g.hit(t, fname, "listbig")
		return 17 + g.R.Intn(260) // crosses 255/256
	default:
		g.hit(t, fname, "listn")
		return 2 + g.R.Intn(g.MaxList)
	}
}

// Value generates a value tree of pinned type t.
func (g *Gen) Value(t string, mode Mode) map[string]any {
	return g.value(t, mode, 0)
}

func (g *Gen) value(t string, mode Mode, depth int) map[string]any {
	td := S.Types[t]
	m := map[string]any{"_t": t}
	// choose the body first, so the key field can be set to match
	keyOverride := map[string][]int{}
	for i := range td.Fields {
		f := &td.Fields[i]
		if f.Kind != "body" {
			continue
		}
		tab := S.Tables[f.Table]
		c := g.R.Intn(20)
		switch {
		case mode == Wild && c == 0:
			m[f.Name] = nilObj // nil body, key registered
			e := tab.Entries[g.R.Intn(len(tab.Entries))]
			keyOverride[f.Key] = e.Key
			g.hit(t, f.Name, "nilbody-registered")
		case mode == Wild && c == 1:
			m[f.Name] = nilObj // nil body, key arbitrary (most likely unregistered)
			g.hit(t, f.Name, "nilbody-anykey")
		default:
			e := tab.Entries[g.R.Intn(len(tab.Entries))]
			keyOverride[f.Key] = e.Key
			m[f.Name] = g.value(e.Type, mode, depth+1)
			g.hit(t, f.Name, "body:"+e.Lit)
		}
	}
	for i := range td.Fields {
		f := &td.Fields[i]
		switch f.Kind {
		case "int", "len", "checksum":
			w := f.W
			ff := *f
			if f.Kind == "len" {
				ff.Go = "u32"
			}
			ff.W = w
			if k, ok := keyOverride[f.Name]; ok {
				m[f.Name] = append([]int{}, k...)
			} else {
				m[f.Name] = g.intBytes(t, f.Name, &ff)
			}
		case "fixed":
			if k, ok := keyOverride[f.Name]; ok {
				m[f.Name] = append([]int{}, k...)
			} else {
				m[f.Name] = g.fixedText(t, f.Name, f, mode)
			}
		case "str":
			m[f.Name] = g.dynText(t, f.Name, mode)
		case "list":
			n := g.listLen(t, f.Name)
			out := make([]any, n)
			for j := range out {
				switch f.Elem.Kind {
				case "int":
					out[j] = g.intBytes(t, f.Name, f.Elem)
				case "fixed":
					out[j] = g.fixedText(t, f.Name, f.Elem, mode)
				case "str":
					out[j] = g.dynText(t, f.Name, mode)
				}
			}
			m[f.Name] = out
		case "obj":
			if mode == Wild && !f.ByValue && g.R.Intn(10) == 0 && depth < 3 {
				m[f.Name] = nilObj
				g.hit(t, f.Name, "nilobj")
			} else {
				m[f.Name] = g.value(f.Type, mode, depth+1)
			}
		case "objlist":
			n := g.listLen(t, f.Name)
			if n > 40 && g.Big == 0 {
				n = 40
			}
			out := make([]any, n)
			for j := range out {
				out[j] = g.value(f.Type, mode, depth+1)
			}
			m[f.Name] = out
		}
	}
	// two fields that agree: now and then a plain integer field is given the length of one of the message's texts / lists
	// (an explicit length next to a length-prefixed text, a count next to a repeating group)
	if g.R.Intn(3) == 0 {
		var ints, seqs []*Field
		for i := range td.Fields {
			f := &td.Fields[i]
			if _, isKey := keyOverride[f.Name]; isKey {
				continue
			}
			switch {
			case f.Kind == "int" && f.Go != "f32" && f.Go != "f64":
				ints = append(ints, f)
			case f.Kind == "str" || f.Kind == "list" || f.Kind == "objlist":
				seqs = append(seqs, f)
			}
		}
		if len(ints) > 0 && len(seqs) > 0 {
			fi, fs := ints[g.R.Intn(len(ints))], seqs[g.R.Intn(len(seqs))]
			n := 0
			switch x := m[fs.Name].(type) {
			case []int:
				n = len(x)
			case []any:
				n = len(x)
			}
			if fs.Kind == "str" && n == 0 {
				txt := make([]int, 1+g.R.Intn(11))
				for i := range txt {
					txt[i] = g.textByte()
				}
				m[fs.Name] = txt
				n = len(txt)
			}
			b := make([]int, fi.W)
			for i, x := fi.W-1, n; i >= 0; i-- {
				b[i] = x & 0xff
				x >>= 8
			}
			m[fi.Name] = b
			g.hit(t, fi.Name, "equals-length-of-"+fs.Name)
		}
	}
	return m
}

// AgreeVariants: for every (plain integer field, text / list field) pair of type t (at most max pairs) a canonical value in which the
// integer equals the length of the text / list, which is not empty.
func (g *Gen) AgreeVariants(t string, max int) []map[string]any {
	td := S.Types[t]
	var out []map[string]any
	for i := range td.Fields {
		fi := &td.Fields[i]
		if fi.Kind != "int" || fi.Go == "f32" || fi.Go == "f64" {
			continue
		}
		for j := range td.Fields {
			fs := &td.Fields[j]
			if fs.Kind != "str" && fs.Kind != "list" && fs.Kind != "objlist" {
				continue
			}
			if len(out) >= max {
				return out
			}
			var v map[string]any
			n := 0
			for try := 0; try < 20 && n == 0; try++ {
				v = g.Value(t, Canon)
				switch x := v[fs.Name].(type) {
				case []int:
					n = len(x)
				case []any:
					n = len(x)
				}
			}
			if n == 0 {
				continue
			}
			// the integer field must not be a discriminator key of this value
			isKey := false
			for k := range td.Fields {
				if td.Fields[k].Kind == "body" && td.Fields[k].Key == fi.Name {
					isKey = true
				}
			}
			if isKey {
				continue
			}
			b := make([]int, fi.W)
			for q, x := fi.W-1, n; q >= 0; q-- {
				b[q] = x & 0xff
				x >>= 8
			}
			v[fi.Name] = b
			g.hit(t, fi.Name, "equals-length-of-"+fs.Name)
			out = append(out, v)
		}
	}
	return out
}
