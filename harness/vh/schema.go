package vh

import (
	"encoding/json"
	"fmt"
	"os"
	"sort"
)

// The pinned schema is used by the harness ONLY to steer generation (which values are
// interesting, which keys are registered). It never decides a verdict: that is the
// specification's job (TLC reads the same file and interprets it).

type Field struct {
	Name    string `json:"name"`
	Kind    string `json:"kind"`
	W       int    `json:"w"`
	Go      string `json:"go"`
	N       int    `json:"n"`
	Pad     int    `json:"pad"`
	Left    bool   `json:"left"`
	PW      int    `json:"pw"`
	Elem    *Field `json:"elem"`
	Type    string `json:"type"`
	Nil     string `json:"nil"`
	Key     string `json:"key"`
	Table   string `json:"table"`
	Alg     string `json:"alg"`
	ByValue bool   `json:"byvalue"`
}

type TypeDef struct {
	Proto  string  `json:"proto"`
	Fields []Field `json:"fields"`
	File   string  `json:"file"`
}

type TableEntry struct {
	Key  []int  `json:"key"`
	Type string `json:"type"`
	Lit  string `json:"lit"`
}

type Table struct {
	KeyKind    string       `json:"keykind"`
	Owner      string       `json:"owner"`
	KeyField   string       `json:"keyfield"`
	RegistryFn string       `json:"registry_fn"`
	NewFn      string       `json:"new_fn"`
	Entries    []TableEntry `json:"entries"`
}

type Proto struct {
	Endian  string `json:"endian"`
	Version string `json:"version"`
}

type Schema struct {
	Protocols map[string]Proto   `json:"protocols"`
	Types     map[string]TypeDef `json:"types"`
	Tables    map[string]Table   `json:"tables"`
}

var S *Schema

func SchemaPath() string {
	if p := os.Getenv("VERIF_SCHEMA"); p != "" {
		return p
	}
	return "/verif/schema/pinned.json"
}

func LoadSchema() error {
	data, err := os.ReadFile(SchemaPath())
	if err != nil {
		return err
	}
	s := &Schema{}
	if err := json.Unmarshal(data, s); err != nil {
		return err
	}
	for n := range s.Types {
		if _, ok := Ctors[n]; !ok {
			return fmt.Errorf("schema type %s has no constructor", n)
		}
	}
	S = s
	return nil
}

// IsFrame reports whether the type is one of the five root frames.
func IsFrame(t string) bool {
	switch t {
	case "sse.SseBinary", "szse.SzseBinary", "bse.BjseBinary", "risk.RcBinary", "sample.RootPacket":
		return true
	}
	return false
}

func Frames() []string {
	return []string{"sse.SseBinary", "szse.SzseBinary", "bse.BjseBinary", "risk.RcBinary", "sample.RootPacket"}
}

func TableNames() []string {
	out := []string{}
	for n := range S.Tables {
		out = append(out, n)
	}
	sort.Strings(out)
	return out
}

// BodyField returns the body/extension field of a type, if any.
func BodyField(t string) *Field {
	td := S.Types[t]
	for i := range td.Fields {
		if td.Fields[i].Kind == "body" {
			return &td.Fields[i]
		}
	}
	return nil
}
