package vh

import (
	"bytes"
	"encoding/json"
	"fmt"
	"io"
	"reflect"
	"runtime"

	"github.com/xinchentechnote/fin-proto-go/codec"
)

// Op is one step of a history: a public call of the library or something a caller does to
// a buffer or a message object between calls. The same interpreter executes histories made
// by the random drivers (record, direction B) and histories exported by TLC (replay,
// direction A).
type Op struct {
	Op    string         `json:"op"`
	B     string         `json:"b,omitempty"`
	O     string         `json:"o,omitempty"`
	T     string         `json:"t,omitempty"`
	K     int            `json:"k,omitempty"`
	Bytes []int          `json:"bytes,omitempty"`
	V     map[string]any `json:"v,omitempty"`
	Alg   string         `json:"alg,omitempty"`
	From  string         `json:"from,omitempty"`
	Fresh bool           `json:"fresh,omitempty"`
	Tag   string         `json:"tag,omitempty"` // driver annotation (what the step is for); not read by the spec
	Meter bool           `json:"meter,omitempty"`
	Fn    string         `json:"fn,omitempty"`   // primitive name (op "prim")
	Args  map[string]any `json:"args,omitempty"` // primitive arguments
}

// Event is what the recorder logs for one Op at its return (error and panic paths too).
// All fields are always present so that the trace specification can read any of them.
type Event struct {
	ID    int    `json:"id"`
	Op    string `json:"op"`
	B     string `json:"b"`
	O     string `json:"o"`
	T     string `json:"t"`
	K     int    `json:"k"`
	Bytes []int  `json:"bytes"`
	V     any    `json:"v"`     // object dump before the call (encode/mutate) or the built value (new)
	VPost any    `json:"vpost"` // object dump after the call
	Res   string `json:"res"`   // ok | err | panic | na
	Err   string `json:"err"`
	Post  []int  `json:"post"` // unread bytes of buffer B after the call
	Out   []int  `json:"out"`  // scalar result (calc), most significant byte first
	Alg   string `json:"alg"`
	Alloc int    `json:"alloc"` // TotalAlloc delta of the call in bytes (-1: not measured)
	InLen int    `json:"inlen"` // unread bytes before the call
	Tag   string `json:"tag"`
	From  string `json:"from"`
	Fresh bool   `json:"fresh"`
	Fn    string `json:"fn"`
	Args  any    `json:"args"`
	Ret   any    `json:"ret"` // reader result of a primitive, as a value tree
	Big   bool   `json:"big"` // post not logged (very long buffer); same = harness-observed "buffer unchanged"
	Same  bool   `json:"same"`
	PLen  int    `json:"plen"` // unread length after the call
	H     int    `json:"h"`    // history number
}

type Machine struct {
	Bufs   map[string]*bytes.Buffer
	Objs   map[string]any
	Types  map[string]string
	NextID int
	Hist   int
}

func NewMachine() *Machine {
	return &Machine{Bufs: map[string]*bytes.Buffer{}, Objs: map[string]any{}, Types: map[string]string{}}
}

func (m *Machine) buf(name string) *bytes.Buffer {
	b, ok := m.Bufs[name]
	if !ok {
		b = &bytes.Buffer{}
		m.Bufs[name] = b
	}
	return b
}

func unread(b *bytes.Buffer) []int { return B2I(b.Bytes()) }

var emptyObj = map[string]any{"_t": "nil"}

var savedServices = map[string]any{}

func guarded(f func() error) (res string, errs string) {
	defer func() {
		if r := recover(); r != nil {
			res = "panic"
			errs = fmt.Sprint(r)
		}
	}()
	if err := f(); err != nil {
		return "err", err.Error()
	}
	return "ok", ""
}

// Exec runs one op on the real code and returns the event.
func (m *Machine) Exec(op Op) (Event, error) {
	m.NextID++
	ev := Event{ID: m.NextID, Op: op.Op, B: op.B, O: op.O, T: op.T, K: op.K, Bytes: []int{}, V: emptyObj, VPost: emptyObj,
		Res: "na", Post: []int{}, Out: []int{}, Alg: op.Alg, Alloc: -1, Tag: op.Tag, From: op.From, Fresh: op.Fresh, Fn: op.Fn, Args: map[string]any{}, Ret: []int{}, H: m.Hist}
	if op.Args != nil {
		ev.Args = op.Args
	}
	if op.Bytes != nil {
		ev.Bytes = op.Bytes
	}
	switch op.Op {
	case "new":
		obj, err := Build(op.V)
		if err != nil {
			return ev, err
		}
		m.Objs[op.O] = obj
		ev.T = NameOf(obj)
		m.Types[op.O] = ev.T
		ev.V = Dump(obj)
	case "newzero":
		c, ok := Ctors[op.T]
		if !ok {
			return ev, fmt.Errorf("unknown type %s", op.T)
		}
		m.Objs[op.O] = c()
		m.Types[op.O] = op.T
		ev.V = Dump(m.Objs[op.O])
		ev.VPost = ev.V
	case "copy":
		src, ok := m.Objs[op.From]
		if !ok {
			return ev, fmt.Errorf("copy: no object %s", op.From)
		}
		obj, err := Build(roundtripJSON(Dump(src)))
		if err != nil {
			return ev, err
		}
		m.Objs[op.O] = obj
		m.Types[op.O] = m.Types[op.From]
		ev.T = m.Types[op.O]
		ev.V = Dump(obj)
		ev.VPost = ev.V
	case "encode":
		obj, ok := m.Objs[op.O]
		if !ok {
			return ev, fmt.Errorf("encode: no object %s", op.O)
		}
		c, err := AsCodec(obj)
		if err != nil {
			return ev, err
		}
		b := m.buf(op.B)
		ev.T = m.Types[op.O]
		ev.V = Dump(obj)
		ev.InLen = b.Len()
		ev.Res, ev.Err = guarded(func() error { return c.Encode(b) })
		ev.VPost = Dump(obj)
		ev.Post = unread(b)
	case "decode":
		var obj any
		if old, ok := m.Objs[op.O]; ok && !op.Fresh {
			obj = old
			if m.Types[op.O] != op.T {
				return ev, fmt.Errorf("decode: receiver %s has type %s, not %s", op.O, m.Types[op.O], op.T)
			}
		} else {
			c, ok := Ctors[op.T]
			if !ok {
				return ev, fmt.Errorf("unknown type %s", op.T)
			}
			obj = c()
			m.Objs[op.O] = obj
			m.Types[op.O] = op.T
		}
		c, err := AsCodec(obj)
		if err != nil {
			return ev, err
		}
		b := m.buf(op.B)
		ev.InLen = b.Len()
		var ms0, ms1 runtime.MemStats
		if op.Meter {
			runtime.ReadMemStats(&ms0)
		}
		ev.Res, ev.Err = guarded(func() error { return c.Decode(b) })
		if op.Meter {
			runtime.ReadMemStats(&ms1)
			ev.Alloc = int(ms1.TotalAlloc - ms0.TotalAlloc)
		}
		ev.VPost = Dump(obj)
		ev.Post = unread(b)
	case "next":
		b := m.buf(op.B)
		b.Next(op.K)
		ev.Post = unread(b)
	case "reset":
		b := m.buf(op.B)
		b.Reset()
		ev.Post = unread(b)
	case "write":
		b := m.buf(op.B)
		b.Write(I2B(op.Bytes))
		ev.Post = unread(b)
	case "poke":
		// the caller overwrites unread byte K in place
		b := m.buf(op.B)
		if op.K < b.Len() && len(op.Bytes) == 1 {
			b.Bytes()[op.K] = byte(op.Bytes[0])
		}
		ev.Post = unread(b)
	case "load":
		// a buffer over a caller-owned slice holding exactly these bytes (bytes.NewBuffer)
		// (K > 0: the buffer holds only the first K of them - the rest lies behind its end in the same
		// backing array, as when a frame is handed on without its trailer)
		raw := I2B(op.Bytes)
		if op.K > 0 && op.K <= len(raw) {
			raw = raw[:op.K]
		}
		m.Bufs[op.B] = bytes.NewBuffer(raw)
		ev.Post = unread(m.Bufs[op.B])
	case "cut":
		// buffer B := the first K unread bytes of buffer From (a partial TCP segment)
		src := m.buf(op.From).Bytes()
		if op.K < 0 { // all but the last |K| bytes
			op.K = len(src) + op.K
			if op.K < 0 {
				op.K = 0
			}
			ev.K = op.K
		}
		if op.K > len(src) {
			// (the driver sized the cut on a probe encoding of its own; if the library renders the same message with another
			// length now, that is for the specification to judge, not a reason for the harness to stop)
			op.K = len(src)
			ev.K = op.K
		}
		raw := append([]byte{}, src[:op.K]...)
		m.Bufs[op.B] = bytes.NewBuffer(raw)
		ev.Bytes = B2I(raw)
		ev.Post = unread(m.Bufs[op.B])
	case "scribble":
		// what a buffer pool does: every byte of the backing array is overwritten, the buffer
		// is reset and refilled with other content.
		b := m.buf(op.B)
		b.Reset()
		full := b.Bytes()
		full = full[:cap(full)]
		for i := range full {
			full[i] ^= 0xff
		}
		for i := 0; i < op.K; i++ {
			b.WriteByte(byte(0xa5 ^ i))
		}
		ev.Post = unread(b)
	case "mutate":
		obj, ok := m.Objs[op.O]
		if !ok {
			return ev, fmt.Errorf("mutate: no object %s", op.O)
		}
		ev.T = m.Types[op.O]
		ev.V = Dump(obj)
		MutateInPlace(obj)
		ev.VPost = Dump(obj)
	case "sharepointers":
		// the caller builds a message in which one nested object is referenced more than once (the same
		// pointer twice in a repeating group, and as a nested part): a legitimate receiver state
		obj, ok := m.Objs[op.O]
		if !ok {
			return ev, fmt.Errorf("sharepointers: no object %s", op.O)
		}
		SharePointers(obj)
		ev.T = m.Types[op.O]
		ev.VPost = Dump(obj)
		ev.V = ev.VPost
	case "duppointers":
		// the caller built a repeating group by appending ONE entry object several times (a fixture, a template
		// message): every position of every repeating group holds the same pointer, at least four of them
		obj, ok := m.Objs[op.O]
		if !ok {
			return ev, fmt.Errorf("duppointers: no object %s", op.O)
		}
		DupPointers(obj)
		ev.Op = "sharepointers" // same meaning for the specification: the receiver's value is re-read from vpost
		ev.T = m.Types[op.O]
		ev.VPost = Dump(obj)
		ev.V = ev.VPost
	case "observe":
		obj, ok := m.Objs[op.O]
		if !ok {
			return ev, fmt.Errorf("observe: no object %s", op.O)
		}
		ev.T = m.Types[op.O]
		ev.VPost = Dump(obj)
		ev.V = ev.VPost
	case "peek":
		ev.Post = unread(m.buf(op.B))
	case "calc":
		b := m.buf(op.B)
		ev.InLen = b.Len()
		big := b.Len() > 1<<16
		var before []byte
		if big {
			before = append([]byte{}, b.Bytes()...)
		}
		var out []int
		ev.Res, ev.Err = guarded(func() error {
			var err error
			out, err = Calc(op.Alg, b)
			return err
		})
		if out != nil {
			ev.Out = out
		}
		ev.PLen = b.Len()
		if big {
			ev.Big = true
			ev.Same = bytes.Equal(before, b.Bytes())
		} else {
			ev.Post = unread(b)
		}
	case "fill":
		// buffer B := the run-length described bytes args.runs (very long inputs)
		b := m.buf(op.B)
		b.Reset()
		for _, e := range asList(op.Args["runs"]) {
			r := e.(map[string]any)
			b.Write(bytes.Repeat([]byte{byte(argInt(r, "b"))}, argInt(r, "n")))
		}
		ev.PLen = b.Len()
		ev.Big = b.Len() > 1<<16
		if !ev.Big {
			ev.Post = unread(b)
		}
	case "encodehuge":
		// A frame whose body holds one very long text (K bytes of value Bytes[0]); only what the
		// length clause needs is logged: the first bytes of what was appended, how much was
		// appended, and the object's computed fields. Field name in From, body type in T (the
		// frame type is derived from it), frame object value in V (body left nil).
		obj, err := Build(op.V)
		if err != nil {
			return ev, err
		}
		bodyCtor, ok := Ctors[op.T]
		if !ok {
			return ev, fmt.Errorf("unknown type %s", op.T)
		}
		body := bodyCtor()
		fv := reflect.ValueOf(body).Elem().FieldByName(op.From)
		if !fv.IsValid() || fv.Kind() != reflect.String {
			return ev, fmt.Errorf("%s has no text field %s", op.T, op.From)
		}
		fv.SetString(string(bytes.Repeat([]byte{byte(op.Bytes[0])}, op.K)))
		bfv := reflect.ValueOf(obj).Elem().FieldByName(op.Alg) // body field name travels in Alg
		if !bfv.IsValid() {
			return ev, fmt.Errorf("no body field %s", op.Alg)
		}
		bfv.Set(reflect.ValueOf(body))
		c, err := AsCodec(obj)
		if err != nil {
			return ev, err
		}
		b := m.buf(op.B)
		pre := b.Len()
		ev.InLen = pre
		ev.T = NameOf(obj)
		ev.Res, ev.Err = guarded(func() error { return c.Encode(b) })
		app := b.Bytes()[pre:]
		ev.PLen = len(app)
		head := app
		if len(head) > 48 {
			head = head[:48]
		}
		ev.Bytes = B2I(head)
		ev.Big = true
		// the object after the call, with the huge body dropped again
		bfv.Set(reflect.Zero(bfv.Type()))
		ev.VPost = Dump(obj)
		b.Reset()
	case "regfactory":
		// the application registers (or overrides) a discriminator: table From, key Bytes, body type T
		rf, ok := Registries[op.From]
		if !ok {
			return ev, fmt.Errorf("unknown table %q", op.From)
		}
		ctor, ok := Ctors[op.T]
		if !ok {
			return ev, fmt.Errorf("unknown type %q", op.T)
		}
		rf(op.Bytes, func() codec.BinaryCodec { return ctor().(codec.BinaryCodec) })
		ev.Res = "ok"
	case "regremove":
		// the caller removes a checksum service from the library's registry (restored by "regrestore")
		svc, ok := codec.Get(op.Alg)
		if ok {
			savedServices[op.Alg] = svc
		}
		codec.Remove(op.Alg)
		ev.Res = "ok"
	case "regrestore":
		if svc, ok := savedServices[op.Alg]; ok {
			codec.Registry(svc)
			delete(savedServices, op.Alg)
		}
		ev.Res = "ok"
	case "prim":
		b := m.buf(op.B)
		ev.InLen = b.Len()
		var ret any
		var herr error
		var ms0, ms1 runtime.MemStats
		if op.Meter {
			runtime.ReadMemStats(&ms0)
		}
		ev.Res, ev.Err = guarded(func() error {
			r, err := ExecPrim(b, op.Fn, op.Args)
			if he, ok := err.(HarnessError); ok {
				herr = he
				return nil
			}
			ret = r
			return err
		})
		if op.Meter {
			runtime.ReadMemStats(&ms1)
			ev.Alloc = int(ms1.TotalAlloc - ms0.TotalAlloc)
		}
		if herr != nil {
			return ev, herr
		}
		if ret != nil {
			ev.Ret = ret
		}
		ev.PLen = b.Len()
		if argBool(op.Args, "nopost") {
			ev.Big = true
		} else {
			ev.Post = unread(b)
		}
	default:
		return ev, fmt.Errorf("unknown op %q", op.Op)
	}
	return ev, nil
}

// Calc looks the service up in the library's registry and applies it; the result is the
// value's bit pattern in its own width, most significant byte first.
func Calc(alg string, b *bytes.Buffer) ([]int, error) {
	svc, ok := codec.Get(alg)
	if !ok {
		return nil, fmt.Errorf("no service %s", alg)
	}
	switch s := svc.(type) {
	case codec.ChecksumService[*bytes.Buffer, uint16]:
		return bytesOf(uint64(s.Calc(b)), 2), nil
	case codec.ChecksumService[*bytes.Buffer, uint32]:
		return bytesOf(uint64(s.Calc(b)), 4), nil
	case codec.ChecksumService[*bytes.Buffer, int32]:
		return bytesOf(uint64(uint32(s.Calc(b))), 4), nil
	}
	return nil, fmt.Errorf("service %s has unexpected type %T", alg, svc)
}

func roundtripJSON(x any) any {
	data, err := json.Marshal(x)
	if err != nil {
		panic(err)
	}
	var out any
	if err := json.Unmarshal(data, &out); err != nil {
		panic(err)
	}
	return out
}

// MutateInPlace changes every list element, nested field and text of a message IN PLACE
// (slices are written through, not replaced), which is what would show an encoder keeping a
// reference to caller memory.
func MutateInPlace(obj any) {
	mutateValue(reflect.ValueOf(obj))
}

func mutateValue(rv reflect.Value) {
	switch rv.Kind() {
	case reflect.Ptr, reflect.Interface:
		if !rv.IsNil() {
			mutateValue(rv.Elem())
		}
	case reflect.Struct:
		for i := 0; i < rv.NumField(); i++ {
			if rv.Type().Field(i).IsExported() {
				mutateValue(rv.Field(i))
			}
		}
	case reflect.String:
		if rv.CanSet() {
			s := []byte(rv.String())
			for i := range s {
				s[i] ^= 0x15
			}
			rv.SetString(string(s) + "~")
		}
	case reflect.Int8, reflect.Int16, reflect.Int32, reflect.Int64:
		if rv.CanSet() {
			rv.SetInt(^rv.Int())
		}
	case reflect.Uint8, reflect.Uint16, reflect.Uint32, reflect.Uint64:
		if rv.CanSet() {
			rv.SetUint(^rv.Uint() & (1<<(8*uint(rv.Type().Size())) - 1))
		}
	case reflect.Float32, reflect.Float64:
		if rv.CanSet() {
			rv.SetFloat(rv.Float() + 1.5)
		}
	case reflect.Slice:
		for i := 0; i < rv.Len(); i++ {
			mutateValue(rv.Index(i))
		}
	}
}

// Recorder writes events as NDJSON.
type Recorder struct {
	W   io.Writer
	enc *json.Encoder
	N   int
}

func NewRecorder(w io.Writer) *Recorder {
	e := json.NewEncoder(w)
	e.SetEscapeHTML(false)
	return &Recorder{W: w, enc: e}
}

func (r *Recorder) Emit(ev Event) error {
	r.N++
	return r.enc.Encode(ev)
}

// OpOfEvent reconstructs the Op that produced a recorded event (for replay files).
func OpOfEvent(e map[string]any) (Op, error) {
	data, err := json.Marshal(e)
	if err != nil {
		return Op{}, err
	}
	var ev struct {
		Op    string         `json:"op"`
		B     string         `json:"b"`
		O     string         `json:"o"`
		T     string         `json:"t"`
		K     int            `json:"k"`
		Bytes []int          `json:"bytes"`
		V     map[string]any `json:"v"`
		Alg   string         `json:"alg"`
		Tag   string         `json:"tag"`
		From  string         `json:"from"`
		Alloc int            `json:"alloc"`
		Fresh bool           `json:"fresh"`
		Fn    string         `json:"fn"`
		Args  map[string]any `json:"args"`
	}
	if err := json.Unmarshal(data, &ev); err != nil {
		return Op{}, err
	}
	op := Op{Op: ev.Op, B: ev.B, O: ev.O, T: ev.T, K: ev.K, Bytes: ev.Bytes, Alg: ev.Alg, Tag: ev.Tag, From: ev.From, Fresh: ev.Fresh,
		Meter: ev.Alloc >= 0, Fn: ev.Fn, Args: ev.Args}
	if ev.Op == "new" {
		op.V = ev.V
	}
	return op, nil
}

// DupPointers makes every element of every repeating group the same pointer (at least four entries).
func DupPointers(obj any) {
	rv := reflect.ValueOf(obj)
	if rv.Kind() != reflect.Ptr || rv.IsNil() {
		return
	}
	rv = rv.Elem()
	if rv.Kind() != reflect.Struct {
		return
	}
	for i := 0; i < rv.NumField(); i++ {
		f := rv.Field(i)
		if f.Kind() == reflect.Slice && f.Type().Elem().Kind() == reflect.Ptr && f.CanSet() {
			var e0 reflect.Value
			if f.Len() > 0 && !f.Index(0).IsNil() {
				e0 = f.Index(0)
			} else {
				e0 = reflect.New(f.Type().Elem().Elem())
			}
			n := f.Len()
			if n < 4 {
				n = 4
			}
			ns := reflect.MakeSlice(f.Type(), n, n)
			for j := 0; j < n; j++ {
				ns.Index(j).Set(e0)
			}
			f.Set(ns)
		}
	}
}

// SharePointers makes list element 1 the same pointer as element 0 in every repeating group, and
// makes a nested part of the same type point to element 0 as well.
func SharePointers(obj any) {
	rv := reflect.ValueOf(obj)
	if rv.Kind() != reflect.Ptr || rv.IsNil() {
		return
	}
	rv = rv.Elem()
	if rv.Kind() != reflect.Struct {
		return
	}
	for i := 0; i < rv.NumField(); i++ {
		f := rv.Field(i)
		if f.Kind() == reflect.Slice && f.Type().Elem().Kind() == reflect.Ptr && f.Len() >= 2 {
			f.Index(1).Set(f.Index(0))
			for j := 0; j < rv.NumField(); j++ {
				g := rv.Field(j)
				if g.Kind() == reflect.Ptr && g.Type() == f.Type().Elem() && g.CanSet() {
					g.Set(f.Index(0))
				}
			}
		}
	}
}
