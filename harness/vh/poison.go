package vh

import (
	"fmt"
	"math/rand"
	"runtime"
	"runtime/debug"
)

// Poisoned mode: a driver's histories are run unchanged, but the library is first (and, in
// mode 2, before every encode/decode of the history) made to FAIL - an Encode that is refused
// after it has written something (an unregistered key below a frame, a list too long for its
// prefix inside a body), a Decode that is refused (unregistered frame type with body bytes
// behind it, a message cut short). Whatever an error path leaves behind (a pooled scratch
// buffer not emptied, a memo updated half-way, a scratch returned twice) then meets the
// ordinary history, which the specification judges exactly as before: the poison steps use
// their own objects and buffers (names "px..."), so no property allows them to matter.

type poison struct {
	ops    []Op
	family string // frame type the poison exercises ("" = none in particular)
	heavy  bool   // builds a 65,536-element value: used only as a history prefix
}

func unknownKeyFor(tab Table, r *rand.Rand) []int {
	if tab.KeyKind != "int" {
		return []int{'9', 'Z', '9'}
	}
	w := len(tab.Entries[0].Key)
	for {
		k := make([]int, w)
		for i := range k {
			k[i] = r.Intn(256)
		}
		ok := true
		for _, e := range tab.Entries {
			if fmt.Sprint(e.Key) == fmt.Sprint(k) {
				ok = false
			}
		}
		if ok {
			return k
		}
	}
}

// framesCarrying: (frame type, key) pairs under which body type t is registered
func framesCarrying(t string) (out []struct {
	frame string
	key   []int
}) {
	for _, tn := range TableNames() {
		tab := S.Tables[tn]
		if !IsFrame(tab.Owner) {
			continue
		}
		for _, e := range tab.Entries {
			if e.Type == t {
				out = append(out, struct {
					frame string
					key   []int
				}{tab.Owner, e.Key})
			}
		}
	}
	return
}

func frameTable(frame string) (Table, bool) {
	for _, tn := range TableNames() {
		if S.Tables[tn].Owner == frame {
			return S.Tables[tn], true
		}
	}
	return Table{}, false
}

func buildPoisons(seed int64) []poison {
	g := NewGen(seed*7919 + 17)
	g.Small = true
	r := g.R
	var out []poison
	wrap := func(body map[string]any, bt string) []map[string]any {
		vs := []map[string]any{}
		for _, fc := range framesCarrying(bt) {
			tab, _ := frameTable(fc.frame)
			v := g.Value(fc.frame, Canon)
			v[tab.KeyField] = fc.key
			v[BodyField(fc.frame).Name] = body
			vs = append(vs, v)
			if len(vs) >= 2 {
				break
			}
		}
		return vs
	}
	// (1) refused encodes: an unregistered key with the extension left out, alone and as the body of a frame
	for _, tn := range TableNames() {
		tab := S.Tables[tn]
		if IsFrame(tab.Owner) {
			continue
		}
		bf := BodyField(tab.Owner)
		v := g.Value(tab.Owner, Canon)
		v[tab.KeyField] = unknownKeyFor(tab, r)
		v[bf.Name] = nilObj
		out = append(out, poison{ops: []Op{{Op: "new", O: "pxm", V: v}, {Op: "encode", B: "pxb", O: "pxm", Tag: "poison: refused encode (unregistered key, extension left out)"}}})
		for _, fv := range wrap(v, tab.Owner) {
			out = append(out, poison{family: fv["_t"].(string), ops: []Op{{Op: "new", O: "pxm", V: fv}, {Op: "encode", B: "pxb", O: "pxm", Tag: "poison: refused frame encode (unregistered key in the body)"}}})
		}
	}
	// (2) refused encodes: a list / text too long for its prefix, after other fields were written
	rep := func(n int, e any) []any {
		l := make([]any, n)
		for i := range l {
			l[i] = e
		}
		return l
	}
	long := []struct {
		t, f string
		v    func() any
	}{
		{"sse.ExecRptInfo", "Pbu", func() any { return rep(65536, []int{0x50}) }},
		{"sample.StringPacket", "FieldDynamicStringList", func() any { return []any{[]int{0x41}, make([]int, 65536)} }},
		{"sample.StringPacket", "FieldDynamicString1List", func() any { return []any{[]int{0x41}, make([]int, 65536)} }},
		{"hw.RiskControlRequest", "ExtraInfo", func() any { return []any{[]int{0x42}, make([]int, 65536)} }},
		{"sample.BasicPacket", "FieldU8List", func() any { return rep(65536, []int{7}) }},
		// an ELEMENT of an object list is refused after an earlier element (and the count) went through
		{"sample.NestedPacket", "SubPacketList", func() any {
			good, bad := g.Value("sample.SubPacket", Canon), g.Value("sample.SubPacket", Canon)
			bad["FieldI16List"] = rep(65536, []int{1, 2})
			return []any{good, bad, g.Value("sample.SubPacket", Canon)}
		}},
	}
	for _, c := range long {
		td, ok := S.Types[c.t]
		if !ok {
			continue
		}
		has := false
		for _, f := range td.Fields {
			if f.Name == c.f {
				has = true
			}
		}
		if !has {
			continue
		}
		v := g.Value(c.t, Canon)
		v[c.f] = c.v()
		out = append(out, poison{heavy: true, ops: []Op{{Op: "new", O: "pxm", V: v}, {Op: "encode", B: "pxb", O: "pxm", Tag: "poison: refused encode (value too long for its prefix)"}}})
		for _, fv := range wrap(v, c.t) {
			out = append(out, poison{heavy: true, family: fv["_t"].(string), ops: []Op{{Op: "new", O: "pxm", V: fv}, {Op: "encode", B: "pxb", O: "pxm", Tag: "poison: refused frame encode (body value too long for its prefix)"}}})
		}
	}
	// (3) refused decodes: a frame with an unregistered key and body bytes behind it; messages cut short
	enc := func(v map[string]any) []int {
		m := NewMachine()
		if _, err := m.Exec(Op{Op: "new", O: "m", V: v}); err != nil {
			return nil
		}
		ev, err := m.Exec(Op{Op: "encode", B: "b", O: "m"})
		if err != nil || ev.Res != "ok" {
			return nil
		}
		return ev.Post
	}
	for _, fr := range Frames() {
		tab, ok := frameTable(fr)
		if !ok {
			continue
		}
		for k := 0; k < 2; k++ {
			e := tab.Entries[r.Intn(len(tab.Entries))]
			v := g.Value(fr, Canon)
			v[tab.KeyField] = unknownKeyFor(tab, r)
			v[BodyField(fr).Name] = g.Value(e.Type, Canon)
			if w := enc(v); len(w) > 0 {
				out = append(out, poison{family: fr, ops: []Op{{Op: "load", B: "pxb", Bytes: w}, {Op: "decode", B: "pxb", O: "pxr", T: fr, Fresh: true, Tag: "poison: refused decode (unregistered frame type, body bytes behind it)"}}})
			}
			// a valid frame cut short inside its body
			v2 := g.Value(fr, Canon)
			v2[tab.KeyField] = e.Key
			v2[BodyField(fr).Name] = g.Value(e.Type, Canon)
			if w := enc(v2); len(w) > 6 {
				cut := w[:len(w)-1-r.Intn(len(w)/2)]
				out = append(out, poison{family: fr, ops: []Op{{Op: "load", B: "pxb", Bytes: cut}, {Op: "decode", B: "pxb", O: "pxr", T: fr, Fresh: true, Tag: "poison: refused decode (frame cut short)"}}})
			}
		}
	}
	names := TypeNames()
	for k := 0; k < 12; k++ {
		t := names[r.Intn(len(names))]
		if w := enc(g.Value(t, Canon)); len(w) > 2 {
			cut := w[:1+r.Intn(len(w)-1)]
			out = append(out, poison{ops: []Op{{Op: "load", B: "pxb", Bytes: cut}, {Op: "decode", B: "pxb", O: "pxr", T: t, Fresh: true, Tag: "poison: refused decode (message cut short)"}}})
		}
	}
	return out
}

// EnablePoison wraps c.Run. mode 1: every history is preceded by one poison sequence (all kinds in
// turn). mode 2: in addition a light poison precedes every encode/decode of the history, half of the
// time one that exercises the same frame type as the step it precedes.
func (c *DriverCtx) EnablePoison(mode int, seed int64) {
	if mode <= 0 {
		return
	}
	PoisonGC()
	pool := buildPoisons(seed)
	rnd := rand.New(rand.NewSource(seed*31 + 5))
	rnd.Shuffle(len(pool), func(a, b int) { pool[a], pool[b] = pool[b], pool[a] })
	var light []poison
	byFam := map[string][]poison{}    // light poisons per frame type
	byFamAll := map[string][]poison{} // all poisons per frame type
	for _, p := range pool {
		if p.family != "" {
			byFamAll[p.family] = append(byFamAll[p.family], p)
		}
		if !p.heavy {
			light = append(light, p)
			if p.family != "" {
				byFam[p.family] = append(byFam[p.family], p)
			}
		}
	}
	inner := c.Run
	i, j := 0, 0
	prelude := false
	c.Run = func(ops []Op) error {
		if !prelude {
			// first of all every poison once, in one history of its own: what a refused call leaves behind FOR GOOD
			// (a scratch object returned to the wrong pool, a cache entry) is then in place for the whole run
			prelude = true
			var all []Op
			for k, p := range pool {
				for _, op := range p.ops {
					op.O, op.B = renameFor(op.O, k), renameFor(op.B, k)
					all = append(all, op)
				}
			}
			if err := inner(all); err != nil {
				return err
			}
		}
		// the history prefix: every other time a poison of the frame type the history works with (if it has one)
		fam := ""
		for _, op := range ops {
			t := op.T
			if op.Op == "new" && op.V != nil {
				t, _ = op.V["_t"].(string)
			}
			if len(byFamAll[t]) > 0 {
				fam = t
				break
			}
		}
		pre := pool[i%len(pool)]
		if fam != "" && i%2 == 0 {
			pre = byFamAll[fam][(i/2)%len(byFamAll[fam])]
		}
		out := append([]Op{}, pre.ops...)
		i++
		if mode < 2 {
			return inner(append(out, ops...))
		}
		typ := map[string]string{}
		for _, op := range ops {
			if op.Op == "new" && op.V != nil {
				if t, ok := op.V["_t"].(string); ok {
					typ[op.O] = t
				}
			}
			if op.Op == "copy" {
				typ[op.O] = typ[op.From]
			}
			if op.Op == "encode" || op.Op == "decode" {
				t := op.T
				if op.Op == "encode" {
					t = typ[op.O]
				} else {
					typ[op.O] = t
				}
				j++
				if fam := byFam[t]; len(fam) > 0 && j%2 == 0 {
					out = append(out, fam[(j/2)%len(fam)].ops...)
				} else {
					out = append(out, light[j%len(light)].ops...)
				}
			}
			out = append(out, op)
		}
		return inner(out)
	}
}

// PoisonGC: in poisoned mode the collector runs only at every 1024th history boundary (and under memory
// pressure). sync.Pool is emptied by two collections; the harness itself allocates a lot while
// it dumps values, and a scratch object poisoned by a refused call must survive until the next
// call of the history, as it would in an application that allocates little.
var poisonGC bool

func PoisonGC() {
	poisonGC = true
	debug.SetGCPercent(-1)
	debug.SetMemoryLimit(3 << 30)
}

// HistoryBoundary is called by the executors between two histories.
var boundaries int

func HistoryBoundary() {
	boundaries++
	if poisonGC && boundaries%1024 == 0 {
		runtime.GC()
	}
}

// unknown-storm: nothing but refusals - every history is one decode of a frame (or of a message with an
// extension) whose key is unregistered, a different key every time, with body bytes behind it. Run by many
// goroutines at once it makes the error paths of the look-up functions meet each other.
func driveUnknownStorm(c *DriverCtx) error {
	r := c.G.R
	c.G.Small = true
	var batch []Op
	for _, tn := range TableNames() {
		tab := S.Tables[tn]
		if c.TypeFilter != nil && !c.TypeFilter[tab.Owner] {
			continue
		}
		// (all refusals of one table one after the other: the goroutines then meet in the same look-up function)
		for k := 0; k < 120*c.N; k++ {
			e := tab.Entries[r.Intn(len(tab.Entries))]
			v := c.G.Value(tab.Owner, Canon)
			var key []int
			if tab.KeyKind == "int" {
				key = unknownKeyFor(tab, r)
			} else {
				key = []int{'A' + r.Intn(26), '0' + r.Intn(10), 'a' + r.Intn(26)}
			}
			v[tab.KeyField] = key
			v[BodyField(tab.Owner).Name] = c.G.Value(e.Type, Canon)
			m := NewMachine()
			if _, err := m.Exec(Op{Op: "new", O: "m", V: v}); err != nil {
				return err
			}
			ev, err := m.Exec(Op{Op: "encode", B: "b", O: "m"})
			if err != nil {
				return err
			}
			if ev.Res != "ok" {
				continue
			}
			batch = append(batch, Op{Op: "load", B: "b", Bytes: ev.Post}, Op{Op: "decode", B: "b", O: "r", T: tab.Owner, Fresh: true, Tag: "unregistered"})
			if len(batch) >= 8 {
				if err := c.Run(batch); err != nil {
					return err
				}
				batch = nil
			}
		}
	}
	if len(batch) > 0 {
		return c.Run(batch)
	}
	return nil
}

func init() { Drivers["unknown-storm"] = driveUnknownStorm }

func renameFor(name string, k int) string {
	if name == "" {
		return name
	}
	return fmt.Sprintf("%s%d", name, k)
}
