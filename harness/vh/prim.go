package vh

import (
	"bytes"
	"fmt"
	"math"
	"reflect"

	"github.com/xinchentechnote/fin-proto-go/codec"
	"golang.org/x/exp/constraints"
)

// Execution of codec primitives by name (op "prim"). Generic instantiations are selected
// from the argument record: pw (prefix width 1/2/4/8), ek (element kind i8..f64), le.
//
// args: le bool, pw int, pw2 int (inner prefix of string lists), ek string, s []int (text),
//       vals [] (list of byte arrays: numbers MSB first, or texts), n, pad, left,
//       runs [{b,n}] (a run-length described text, expanded here), count int with
//       elem (repeat one element count times: lists too long to write out)
// The event carries args verbatim plus ret (reader result in value-tree form).

// HarnessError marks a problem of the harness itself (bad arguments), as opposed to an error
// returned by the library.
type HarnessError struct{ error }

func hErr(e error) error { return HarnessError{e} }

func argInt(a map[string]any, k string) int {
	switch x := a[k].(type) {
	case float64:
		return int(x)
	case int:
		return x
	}
	return 0
}

func argBool(a map[string]any, k string) bool {
	b, _ := a[k].(bool)
	return b
}

func argStr(a map[string]any, k string) string {
	s, _ := a[k].(string)
	return s
}

func argBytes(a map[string]any, k string) ([]byte, error) {
	if r, ok := a["runs"]; ok && k == "s" {
		var out []byte
		for _, e := range asList(r) {
			m := e.(map[string]any)
			n := argInt(m, "n")
			out = append(out, bytes.Repeat([]byte{byte(argInt(m, "b"))}, n)...)
		}
		return out, nil
	}
	x, err := toInts(a[k])
	if err != nil {
		return nil, err
	}
	return I2B(x), nil
}

func argVals(a map[string]any) ([][]byte, error) {
	if c := argInt(a, "count"); c > 0 {
		e, err := toInts(a["elem"])
		if err != nil {
			return nil, err
		}
		out := make([][]byte, c)
		eb := I2B(e)
		for i := range out {
			out[i] = eb
		}
		return out, nil
	}
	var out [][]byte
	for _, e := range asList(a["vals"]) {
		x, err := toInts(e)
		if err != nil {
			return nil, err
		}
		out = append(out, I2B(x))
	}
	return out, nil
}

func u64of(b []byte) uint64 {
	var u uint64
	for _, x := range b {
		u = u<<8 | uint64(x)
	}
	return u
}

// ---- scalars ------------------------------------------------------------------------------

// Defined numeric types: the constraint codec.BasicType admits them (~uint32 ...), and an
// application's `type Qty uint32` must be written exactly like a uint32 (element kinds "du16" ...).
type (
	dU16 uint16
	dI32 int32
	dU32 uint32
	dI64 int64
	dF64 float64
)

func writeScalar(buf *bytes.Buffer, le bool, ek string, v []byte) error {
	u := u64of(v)
	w := func(x any) error {
		switch t := x.(type) {
		case int8:
			if le {
				return codec.WriteBasicTypeLE(buf, t)
			}
			return codec.WriteBasicType(buf, t)
		case int16:
			if le {
				return codec.WriteBasicTypeLE(buf, t)
			}
			return codec.WriteBasicType(buf, t)
		case int32:
			if le {
				return codec.WriteBasicTypeLE(buf, t)
			}
			return codec.WriteBasicType(buf, t)
		case int64:
			if le {
				return codec.WriteBasicTypeLE(buf, t)
			}
			return codec.WriteBasicType(buf, t)
		case uint8:
			if le {
				return codec.WriteBasicTypeLE(buf, t)
			}
			return codec.WriteBasicType(buf, t)
		case uint16:
			if le {
				return codec.WriteBasicTypeLE(buf, t)
			}
			return codec.WriteBasicType(buf, t)
		case uint32:
			if le {
				return codec.WriteBasicTypeLE(buf, t)
			}
			return codec.WriteBasicType(buf, t)
		case uint64:
			if le {
				return codec.WriteBasicTypeLE(buf, t)
			}
			return codec.WriteBasicType(buf, t)
		case float32:
			if le {
				return codec.WriteBasicTypeLE(buf, t)
			}
			return codec.WriteBasicType(buf, t)
		case float64:
			if le {
				return codec.WriteBasicTypeLE(buf, t)
			}
			return codec.WriteBasicType(buf, t)
		case dU16:
			if le {
				return codec.WriteBasicTypeLE(buf, t)
			}
			return codec.WriteBasicType(buf, t)
		case dI32:
			if le {
				return codec.WriteBasicTypeLE(buf, t)
			}
			return codec.WriteBasicType(buf, t)
		case dU32:
			if le {
				return codec.WriteBasicTypeLE(buf, t)
			}
			return codec.WriteBasicType(buf, t)
		case dI64:
			if le {
				return codec.WriteBasicTypeLE(buf, t)
			}
			return codec.WriteBasicType(buf, t)
		case dF64:
			if le {
				return codec.WriteBasicTypeLE(buf, t)
			}
			return codec.WriteBasicType(buf, t)
		}
		return fmt.Errorf("bad scalar")
	}
	return w(scalarOf(ek, u))
}

func scalarOf(ek string, u uint64) any {
	switch ek {
	case "i8":
		return int8(u)
	case "i16":
		return int16(u)
	case "i32":
		return int32(u)
	case "i64":
		return int64(u)
	case "u8":
		return uint8(u)
	case "u16":
		return uint16(u)
	case "u32":
		return uint32(u)
	case "u64":
		return uint64(u)
	case "f32":
		return math.Float32frombits(uint32(u))
	case "f64":
		return math.Float64frombits(u)
	case "du16":
		return dU16(u)
	case "di32":
		return dI32(u)
	case "du32":
		return dU32(u)
	case "di64":
		return dI64(u)
	case "df64":
		return dF64(math.Float64frombits(u))
	}
	panic("unknown element kind " + ek)
}

func readScalar(buf *bytes.Buffer, le bool, ek string) (any, error) {
	switch ek {
	case "i8":
		return rs[int8](buf, le)
	case "i16":
		return rs[int16](buf, le)
	case "i32":
		return rs[int32](buf, le)
	case "i64":
		return rs[int64](buf, le)
	case "u8":
		return rs[uint8](buf, le)
	case "u16":
		return rs[uint16](buf, le)
	case "u32":
		return rs[uint32](buf, le)
	case "u64":
		return rs[uint64](buf, le)
	case "f32":
		return rs[float32](buf, le)
	case "f64":
		return rs[float64](buf, le)
	case "du16":
		return rs[dU16](buf, le)
	case "di32":
		return rs[dI32](buf, le)
	case "du32":
		return rs[dU32](buf, le)
	case "di64":
		return rs[dI64](buf, le)
	case "df64":
		return rs[dF64](buf, le)
	}
	return nil, fmt.Errorf("unknown element kind %s", ek)
}

func rs[K codec.BasicType](buf *bytes.Buffer, le bool) (any, error) {
	if le {
		v, err := codec.ReadBasicTypeLE[K](buf)
		return v, err
	}
	v, err := codec.ReadBasicType[K](buf)
	return v, err
}

// ---- prefixed things, generic in the prefix type ----------------------------------------------

type prefixOps struct {
	writeList     func(buf *bytes.Buffer, le bool, ek string, vals [][]byte) error
	readList      func(buf *bytes.Buffer, le bool, ek string) (any, error)
	writeStr      func(buf *bytes.Buffer, le bool, s string) error
	readStr       func(buf *bytes.Buffer, le bool) (string, error)
	writeFixedLst func(buf *bytes.Buffer, le bool, vals []string, n int, pad rune, left bool, plain bool) error
	readFixedLst  func(buf *bytes.Buffer, le bool, n int, pad rune, left bool, plain bool) ([]string, error)
	writeStrList  func(buf *bytes.Buffer, le bool, pw2 int, vals []string) error
	readStrList   func(buf *bytes.Buffer, le bool, pw2 int) ([]string, error)
	writeObjList  func(buf *bytes.Buffer, le bool, vals []Codec) error
	readObjList   func(buf *bytes.Buffer, le bool, ctor func() Codec) ([]Codec, error)
}

func wl[T constraints.Unsigned, K codec.BasicType](buf *bytes.Buffer, le bool, ek string, vals [][]byte) error {
	xs := make([]K, len(vals))
	for i, v := range vals {
		xs[i] = scalarOf(ek, u64of(v)).(K)
	}
	if len(xs) == 0 {
		xs = nil
	}
	if le {
		return codec.WriteBasicTypeListLE[T](buf, xs)
	}
	return codec.WriteBasicTypeList[T](buf, xs)
}

func rl[T constraints.Unsigned, K codec.BasicType](buf *bytes.Buffer, le bool) (any, error) {
	if le {
		v, err := codec.ReadBasicTypeListLE[T, K](buf)
		return v, err
	}
	v, err := codec.ReadBasicTypeList[T, K](buf)
	return v, err
}

func wsl[T constraints.Unsigned, K constraints.Unsigned](buf *bytes.Buffer, le bool, vals []string) error {
	if le {
		return codec.WriteStringListLE[T, K](buf, vals)
	}
	return codec.WriteStringList[T, K](buf, vals)
}

func rsl[T constraints.Unsigned, K constraints.Unsigned](buf *bytes.Buffer, le bool) ([]string, error) {
	if le {
		return codec.ReadStringListLE[T, K](buf)
	}
	return codec.ReadStringList[T, K](buf)
}

func mkPrefixOps[T constraints.Unsigned]() prefixOps {
	return prefixOps{
		writeList: func(buf *bytes.Buffer, le bool, ek string, vals [][]byte) error {
			switch ek {
			case "i8":
				return wl[T, int8](buf, le, ek, vals)
			case "i16":
				return wl[T, int16](buf, le, ek, vals)
			case "i32":
				return wl[T, int32](buf, le, ek, vals)
			case "i64":
				return wl[T, int64](buf, le, ek, vals)
			case "u8":
				return wl[T, uint8](buf, le, ek, vals)
			case "u16":
				return wl[T, uint16](buf, le, ek, vals)
			case "u32":
				return wl[T, uint32](buf, le, ek, vals)
			case "u64":
				return wl[T, uint64](buf, le, ek, vals)
			case "f32":
				return wl[T, float32](buf, le, ek, vals)
			case "f64":
				return wl[T, float64](buf, le, ek, vals)
			case "du16":
				return wl[T, dU16](buf, le, ek, vals)
			case "di32":
				return wl[T, dI32](buf, le, ek, vals)
			case "du32":
				return wl[T, dU32](buf, le, ek, vals)
			case "di64":
				return wl[T, dI64](buf, le, ek, vals)
			case "df64":
				return wl[T, dF64](buf, le, ek, vals)
			}
			return fmt.Errorf("unknown element kind %s", ek)
		},
		readList: func(buf *bytes.Buffer, le bool, ek string) (any, error) {
			switch ek {
			case "i8":
				return rl[T, int8](buf, le)
			case "i16":
				return rl[T, int16](buf, le)
			case "i32":
				return rl[T, int32](buf, le)
			case "i64":
				return rl[T, int64](buf, le)
			case "u8":
				return rl[T, uint8](buf, le)
			case "u16":
				return rl[T, uint16](buf, le)
			case "u32":
				return rl[T, uint32](buf, le)
			case "u64":
				return rl[T, uint64](buf, le)
			case "f32":
				return rl[T, float32](buf, le)
			case "f64":
				return rl[T, float64](buf, le)
			case "du16":
				return rl[T, dU16](buf, le)
			case "di32":
				return rl[T, dI32](buf, le)
			case "du32":
				return rl[T, dU32](buf, le)
			case "di64":
				return rl[T, dI64](buf, le)
			case "df64":
				return rl[T, dF64](buf, le)
			}
			return nil, fmt.Errorf("unknown element kind %s", ek)
		},
		writeStr: func(buf *bytes.Buffer, le bool, s string) error {
			if le {
				return codec.WriteStringLE[T](buf, s)
			}
			return codec.WriteString[T](buf, s)
		},
		readStr: func(buf *bytes.Buffer, le bool) (string, error) {
			if le {
				return codec.ReadStringLE[T](buf)
			}
			return codec.ReadString[T](buf)
		},
		writeFixedLst: func(buf *bytes.Buffer, le bool, vals []string, n int, pad rune, left bool, plain bool) error {
			switch {
			case plain && le:
				return codec.WriteFixedStringListLE[T](buf, vals, n)
			case plain:
				return codec.WriteFixedStringList[T](buf, vals, n)
			case le:
				return codec.WriteFixedStringListWithPaddingLE[T](buf, vals, n, pad, left)
			}
			return codec.WriteFixedStringListWithPadding[T](buf, vals, n, pad, left)
		},
		readFixedLst: func(buf *bytes.Buffer, le bool, n int, pad rune, left bool, plain bool) ([]string, error) {
			switch {
			case plain && le:
				return codec.ReadFixedStringListLE[T](buf, n)
			case plain:
				return codec.ReadFixedStringList[T](buf, n)
			case le:
				return codec.ReadFixedStringListTrimPaddingLE[T](buf, n, pad, left)
			}
			return codec.ReadFixedStringListTrimPadding[T](buf, n, pad, left)
		},
		writeStrList: func(buf *bytes.Buffer, le bool, pw2 int, vals []string) error {
			switch pw2 {
			case 1:
				return wsl[T, uint8](buf, le, vals)
			case 2:
				return wsl[T, uint16](buf, le, vals)
			case 4:
				return wsl[T, uint32](buf, le, vals)
			case 8:
				return wsl[T, uint64](buf, le, vals)
			}
			return fmt.Errorf("bad inner prefix width %d", pw2)
		},
		readStrList: func(buf *bytes.Buffer, le bool, pw2 int) ([]string, error) {
			switch pw2 {
			case 1:
				return rsl[T, uint8](buf, le)
			case 2:
				return rsl[T, uint16](buf, le)
			case 4:
				return rsl[T, uint32](buf, le)
			case 8:
				return rsl[T, uint64](buf, le)
			}
			return nil, fmt.Errorf("bad inner prefix width %d", pw2)
		},
		writeObjList: func(buf *bytes.Buffer, le bool, vals []Codec) error {
			if le {
				return codec.WriteObjectListLE[T](buf, vals)
			}
			return codec.WriteObjectList[T](buf, vals)
		},
		readObjList: func(buf *bytes.Buffer, le bool, ctor func() Codec) ([]Codec, error) {
			if le {
				return codec.ReadObjectListLE[T](buf, ctor)
			}
			return codec.ReadObjectList[T](buf, ctor)
		},
	}
}

var prefixTable = map[int]prefixOps{
	1: mkPrefixOps[uint8](), 2: mkPrefixOps[uint16](), 4: mkPrefixOps[uint32](), 8: mkPrefixOps[uint64](),
}

func strsOf(vals [][]byte) []string {
	if len(vals) == 0 {
		return nil
	}
	out := make([]string, len(vals))
	for i, v := range vals {
		out[i] = string(v)
	}
	return out
}

func dumpStrs(xs []string) any {
	out := make([]any, len(xs))
	for i, s := range xs {
		out[i] = strBytes(s)
	}
	return out
}

// ExecPrim runs one codec primitive on buffer b; returns the reader result (value tree) or nil.
func ExecPrim(b *bytes.Buffer, fn string, a map[string]any) (ret any, err error) {
	le := argBool(a, "le")
	pw := argInt(a, "pw")
	ek := argStr(a, "ek")
	n, pad, left := argInt(a, "n"), rune(argInt(a, "pad")), argBool(a, "left")
	var po prefixOps
	if pw != 0 {
		var ok bool
		if po, ok = prefixTable[pw]; !ok {
			return nil, hErr(fmt.Errorf("bad prefix width %d", pw))
		}
	}
	switch fn {
	case "WriteBasicType":
		v, e := argBytes(a, "v")
		if e != nil {
			return nil, hErr(e)
		}
		return nil, writeScalar(b, le, ek, v)
	case "ReadBasicType":
		v, e := readScalar(b, le, ek)
		if e != nil {
			return nil, e
		}
		return dumpValueAny(v), nil
	case "WriteBasicTypeList":
		vals, e := argVals(a)
		if e != nil {
			return nil, hErr(e)
		}
		return nil, po.writeList(b, le, ek, vals)
	case "ReadBasicTypeList":
		v, e := po.readList(b, le, ek)
		if e != nil {
			return nil, e
		}
		return dumpValueAny(v), nil
	case "WriteString":
		s, e := argBytes(a, "s")
		if e != nil {
			return nil, hErr(e)
		}
		return nil, po.writeStr(b, le, string(s))
	case "ReadString":
		s, e := po.readStr(b, le)
		if e != nil {
			return nil, e
		}
		return strBytes(s), nil
	case "WriteFixedString":
		s, e := argBytes(a, "s")
		if e != nil {
			return nil, hErr(e)
		}
		return nil, codec.WriteFixedString(b, string(s), n)
	case "WriteFixedStringWithPadding":
		s, e := argBytes(a, "s")
		if e != nil {
			return nil, hErr(e)
		}
		return nil, codec.WriteFixedStringWithPadding(b, string(s), n, pad, left)
	case "Padding":
		return nil, codec.Padding(b, n, pad)
	case "ReadFixedString":
		s, e := codec.ReadFixedString(b, n)
		if e != nil {
			return nil, e
		}
		return strBytes(s), nil
	case "ReadFixedStringTrimPadding":
		s, e := codec.ReadFixedStringTrimPadding(b, n, pad, left)
		if e != nil {
			return nil, e
		}
		return strBytes(s), nil
	case "WriteFixedStringList", "WriteFixedStringListWithPadding":
		vals, e := argVals(a)
		if e != nil {
			return nil, hErr(e)
		}
		return nil, po.writeFixedLst(b, le, strsOf(vals), n, pad, left, fn == "WriteFixedStringList")
	case "ReadFixedStringList", "ReadFixedStringListTrimPadding":
		xs, e := po.readFixedLst(b, le, n, pad, left, fn == "ReadFixedStringList")
		if e != nil {
			return nil, e
		}
		return dumpStrs(xs), nil
	case "WriteStringList":
		vals, e := argVals(a)
		if e != nil {
			return nil, hErr(e)
		}
		return nil, po.writeStrList(b, le, argInt(a, "pw2"), strsOf(vals))
	case "ReadStringList":
		xs, e := po.readStrList(b, le, argInt(a, "pw2"))
		if e != nil {
			return nil, e
		}
		return dumpStrs(xs), nil
	case "WriteObjectList":
		// elements: `count` copies of one sample.SubPacket built from args.obj, or the list args.objs
		var vals []Codec
		if c := argInt(a, "count"); c > 0 {
			o, e := Build(a["obj"])
			if e != nil {
				return nil, hErr(e)
			}
			cd, _ := AsCodec(o)
			vals = make([]Codec, c)
			for i := range vals {
				vals[i] = cd
			}
			if _, ok := a["nilat"]; ok { // one entry is a nil pointer of the element type
				vals[argInt(a, "nilat")] = reflect.Zero(reflect.TypeOf(o)).Interface().(Codec)
			}
		} else {
			for _, x := range asList(a["objs"]) {
				o, e := Build(x)
				if e != nil {
					return nil, hErr(e)
				}
				cd, _ := AsCodec(o)
				vals = append(vals, cd)
			}
		}
		return nil, po.writeObjList(b, le, vals)
	case "ReadObjectList":
		t := argStr(a, "t")
		ctor := Ctors[t]
		if ctor == nil {
			return nil, hErr(fmt.Errorf("unknown type %s", t))
		}
		xs, e := po.readObjList(b, le, func() Codec { c, _ := AsCodec(ctor()); return c })
		if e != nil {
			return nil, e
		}
		out := make([]any, len(xs))
		for i, x := range xs {
			out[i] = Dump(x)
		}
		return out, nil
	}
	return nil, hErr(fmt.Errorf("unknown primitive %s", fn))
}

func dumpValueAny(v any) any {
	return Dump(v)
}
