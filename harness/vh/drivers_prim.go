package vh

import (
	"os"
	"bytes"
	"fmt"
)

func init() {
	Drivers["prim-fixed"] = drivePrimFixed
	Drivers["prim-pairs"] = drivePrimPairs
	Drivers["prim-limits"] = drivePrimLimits
	Drivers["msg-limits"] = driveMsgLimits
	Drivers["calc"] = driveCalc
	Drivers["calc-exhaustive2"] = driveCalcExhaustive2
	Drivers["calc-giant"] = driveCalcGiant
}

func ia(b ...int) []int { return b }

func anyList(xs [][]int) []any {
	out := make([]any, len(xs))
	for i, x := range xs {
		out[i] = x
	}
	return out
}

// ---- C13 -----------------------------------------------------------------------------------

func drivePrimFixed(c *DriverCtx) error {
	r := c.G.R
	pads := []int{0x00, 0x20, 0x30, 0x80, 0xE9, 0xFF}
	widths := []int{0, 1, 2, 3, 4, 5, 10, 16, 200}
	for rep := 0; rep < c.N; rep++ {
		for _, n := range widths {
			for _, pad := range append(pads, r.Intn(256)) {
				for _, left := range []bool{false, true} {
					alpha := []int{pad, 0x00, 0x20, 0x41, 0xC3, 0xA9, 0xFF, 0x30}
					text := func(maxLen int) []int {
						l := r.Intn(maxLen + 1)
						s := make([]int, l)
						for i := range s {
							if r.Intn(5) == 0 {
								s[i] = r.Intn(256)
							} else {
								s[i] = alpha[r.Intn(len(alpha))]
							}
						}
						return s
					}
					s := text(n + 2)
					args := map[string]any{"s": s, "n": n, "pad": pad, "left": left}
					raw := make([]int, n) // arbitrary n bytes for the reader: pad bytes at both ends and inside
					for i := range raw {
						raw[i] = alpha[r.Intn(len(alpha))]
					}
					if n > 0 && r.Intn(2) == 0 {
						raw[0] = pad
						raw[n-1] = pad
					}
					ops := []Op{
						{Op: "write", B: "w", Bytes: c.junk(r.Intn(3))},
						{Op: "prim", B: "w", Fn: "WriteFixedStringWithPadding", Args: args},
						{Op: "prim", B: "w", Fn: "ReadFixedStringTrimPadding", Args: map[string]any{"n": n, "pad": pad, "left": left}, Tag: "skip-junk-then-read"},
						{Op: "load", B: "r", Bytes: append(append([]int{}, raw...), 7, 7)},
						{Op: "prim", B: "r", Fn: "ReadFixedStringTrimPadding", Args: map[string]any{"n": n, "pad": pad, "left": left}},
						{Op: "prim", B: "p", Fn: "Padding", Args: map[string]any{"n": n, "pad": pad}},
					}
					// the junk written first is consumed by a raw next so that the read starts at the field
					ops[2] = Op{Op: "next", B: "w", K: len(ops[0].Bytes)}
					ops = append(ops, Op{Op: "prim", B: "w", Fn: "ReadFixedStringTrimPadding", Args: map[string]any{"n": n, "pad": pad, "left": left}})
					if pad == 0x20 && !left {
						ops = append(ops,
							Op{Op: "prim", B: "pl", Fn: "WriteFixedString", Args: map[string]any{"s": s, "n": n}},
							Op{Op: "prim", B: "pl", Fn: "ReadFixedString", Args: map[string]any{"n": n}},
							Op{Op: "load", B: "pr", Bytes: raw},
							Op{Op: "prim", B: "pr", Fn: "ReadFixedString", Args: map[string]any{"n": n}})
					}
					// list variants
					if n <= 16 {
						k := r.Intn(4)
						vals := make([][]int, k)
						for i := range vals {
							vals[i] = text(n + 1)
						}
						pw := []int{1, 2, 4, 8}[r.Intn(4)]
						le := r.Intn(2) == 0
						la := map[string]any{"vals": anyList(vals), "n": n, "pad": pad, "left": left, "pw": pw, "le": le}
						ops = append(ops,
							Op{Op: "prim", B: "l", Fn: "WriteFixedStringListWithPadding", Args: la},
							Op{Op: "prim", B: "l", Fn: "ReadFixedStringListTrimPadding", Args: map[string]any{"n": n, "pad": pad, "left": left, "pw": pw, "le": le}})
						if pad == 0x20 && !left {
							ops = append(ops,
								Op{Op: "prim", B: "l2", Fn: "WriteFixedStringList", Args: map[string]any{"vals": anyList(vals), "n": n, "pw": pw, "le": le}},
								Op{Op: "prim", B: "l2", Fn: "ReadFixedStringList", Args: map[string]any{"n": n, "pw": pw, "le": le}})
						}
					}
					if err := c.Run(ops); err != nil {
						return err
					}
				}
			}
		}
	}
	return nil
}

// Sweep of C13: every value length 0..N+1 for a range of widths (block boundaries 32/64/128/256
// included), pad byte and side rotating.
func drivePrimFixedSweep(c *DriverCtx) error {
	r := c.G.R
	widths := []int{}
	for n := 0; n <= 40; n++ {
		widths = append(widths, n)
	}
	widths = append(widths, 63, 64, 65, 96, 100, 127, 128, 129, 200, 255, 256, 257)
	pads := []int{0x20, 0x30, 0x00, 0xff}
	k := 0
	for _, n := range widths {
		ops := []Op{}
		for l := 0; l <= n+1; l++ {
			k++
			pad := pads[k%len(pads)]
			left := (k/len(pads))%2 == 1
			s := make([]int, l)
			for i := range s {
				s[i] = 0x41 + r.Intn(26)
			}
			b := fmt.Sprintf("b%d", l)
			ops = append(ops, Op{Op: "prim", B: b, Fn: "WriteFixedStringWithPadding", Args: map[string]any{"s": s, "n": n, "pad": pad, "left": left}},
				Op{Op: "prim", B: b, Fn: "ReadFixedStringTrimPadding", Args: map[string]any{"n": n, "pad": pad, "left": left}})
			if len(ops) >= 120 {
				if err := c.Run(ops); err != nil {
					return err
				}
				ops = []Op{}
			}
		}
		if len(ops) > 0 {
			if err := c.Run(ops); err != nil {
				return err
			}
		}
	}
	return nil
}

func init() { Drivers["prim-fixed-sweep"] = drivePrimFixedSweep }

// C13 on lists by COUNT: fixed-width text lists of many counts (small ones densely, then around
// the multiples of 128 and the round decimal numbers), every cell shorter than the width, written
// into a buffer whose spare capacity holds stale bytes, and read back.
func drivePrimFixedCounts(c *DriverCtx) error {
	counts := []int{}
	for n := 0; n <= 64; n++ {
		counts = append(counts, n)
	}
	for k := 1; k <= 16; k++ {
		counts = append(counts, 128*k-1, 128*k, 128*k+1)
	}
	for k := 1; k <= 20; k++ {
		counts = append(counts, 100*k)
	}
	counts = append(counts, 4096, 8192)
	if c.N > 1 {
		counts = append(counts, 3000, 4095, 4097, 5000, 8191, 8193, 10000, 16384, 32768, 65535)
	}
	k := 0
	for _, w := range []int{1, 3, 8, 10, 16} {
		for _, n := range counts {
			if n*w > 140000 {
				continue
			}
			k++
			pad := []int{0x20, 0x30, 0x00, 0xff}[k%4]
			left := (k/4)%2 == 1
			el := make([]int, w-1-(k%2)*(w/3))
			for i := range el {
				el[i] = 0x61 + (i+k)%26
			}
			pw := []int{2, 4}[k%2]
			le := (k/2)%2 == 1
			stale := []any{map[string]any{"b": 0xEE, "n": n*w + 64}}
			a := map[string]any{"n": w, "pad": pad, "left": left, "count": n, "elem": el, "vals": []any{}, "pw": pw, "le": le}
			ops := []Op{{Op: "prim", B: "b", Fn: "WriteString", Args: map[string]any{"runs": stale, "s": []int{}, "pw": 4, "le": false}}, {Op: "reset", B: "b"},
				{Op: "prim", B: "b", Fn: "WriteFixedStringListWithPadding", Args: a, Tag: "count-sweep"},
				{Op: "prim", B: "b", Fn: "ReadFixedStringListTrimPadding", Args: a, Tag: "read-back"}}
			if pad == 0x20 && !left {
				ops = append(ops, Op{Op: "reset", B: "b"}, Op{Op: "prim", B: "b", Fn: "WriteFixedStringList", Args: a, Tag: "count-sweep"},
					Op{Op: "prim", B: "b", Fn: "ReadFixedStringList", Args: a, Tag: "read-back"})
			}
			if err := c.Run(ops); err != nil {
				return err
			}
		}
	}
	return nil
}

func init() { Drivers["prim-fixed-counts"] = drivePrimFixedCounts }

// ---- C03 -----------------------------------------------------------------------------------

var elemKinds = []struct {
	ek string
	w  int
}{{"i8", 1}, {"i16", 2}, {"i32", 4}, {"i64", 8}, {"u8", 1}, {"u16", 2}, {"u32", 4}, {"u64", 8}, {"f32", 4}, {"f64", 8},
	// defined types over the built-in ones (type Qty uint32): admitted by the ~ constraints
	{"du16", 2}, {"di32", 4}, {"du32", 4}, {"di64", 8}, {"df64", 8}}

// digits of n in w bytes, in the given order (the harness's own trivial renderer, used only to
// make reader INPUT; what the reader must return from it is decided by TLC)
func prefixBytes(n, w int, le bool) []int {
	out := make([]int, w)
	for i := w - 1; i >= 0; i-- {
		out[i] = n & 0xff
		n >>= 8
	}
	if le {
		for i, j := 0, w-1; i < j; i, j = i+1, j-1 {
			out[i], out[j] = out[j], out[i]
		}
	}
	return out
}

func rev(x []int) []int {
	out := make([]int, len(x))
	for i := range x {
		out[i] = x[len(x)-1-i]
	}
	return out
}

func drivePrimPairs(c *DriverCtx) error {
	r := c.G.R
	nonPal := func(w int) []int { // no byte palindromes: a reversed integer is always visible
		for {
			x := make([]int, w)
			for i := range x {
				x[i] = 1 + r.Intn(254)
			}
			if w == 1 || x[0] != x[w-1] {
				return x
			}
		}
	}
	for rep := 0; rep < c.N; rep++ {
		for _, pw := range []int{1, 2, 4, 8} {
			for _, k := range elemKinds {
				for _, cnt := range []int{0, 1, 2, 3} {
					vals := make([][]int, cnt)
					for i := range vals {
						vals[i] = nonPal(k.w)
					}
					ops := []Op{}
					for _, le := range []bool{false, true} {
						bn := fmt.Sprintf("w%v", le)
						ops = append(ops, Op{Op: "prim", B: bn, Fn: "WriteBasicTypeList", Args: map[string]any{"vals": anyList(vals), "pw": pw, "ek": k.ek, "le": le}})
						in := prefixBytes(cnt, pw, le)
						for _, v := range vals {
							if le {
								in = append(in, rev(v)...)
							} else {
								in = append(in, v...)
							}
						}
						in = append(in, 9)
						rn := fmt.Sprintf("r%v", le)
						ops = append(ops, Op{Op: "load", B: rn, Bytes: in}, Op{Op: "prim", B: rn, Fn: "ReadBasicTypeList", Args: map[string]any{"pw": pw, "ek": k.ek, "le": le}})
						if cnt == 1 {
							sn := fmt.Sprintf("s%v", le)
							ops = append(ops, Op{Op: "prim", B: sn, Fn: "WriteBasicType", Args: map[string]any{"v": vals[0], "ek": k.ek, "le": le}})
							x := vals[0]
							if le {
								x = rev(x)
							}
							ops = append(ops, Op{Op: "load", B: sn + "r", Bytes: x}, Op{Op: "prim", B: sn + "r", Fn: "ReadBasicType", Args: map[string]any{"ek": k.ek, "le": le}})
						}
					}
					if err := c.Run(ops); err != nil {
						return err
					}
				}
			}
			// lists longer than any 16-bit count (behind 32- and 64-bit prefixes): more than 2^16 elements
			if pw >= 4 && rep == 0 {
				big := []int{65537, 70001}
				if c.N > 1 {
					big = append(big, 131072, 131075)
				}
				for bi, cnt := range big {
					for _, ek := range []string{"i16", "u32", "f64"}[bi%3 : bi%3+1+boolToInt(c.N > 1)*0] {
						w := map[string]int{"i16": 2, "u32": 4, "f64": 8}[ek]
						el := nonPal(w)
						ops := []Op{}
						for _, le := range []bool{false, true} {
							bn := fmt.Sprintf("w%v", le)
							ops = append(ops, Op{Op: "prim", B: bn, Fn: "WriteBasicTypeList", Args: map[string]any{"count": cnt, "elem": el, "vals": []any{}, "pw": pw, "ek": ek, "le": le},
								Tag: "more-than-65536-elements"},
								Op{Op: "prim", B: bn, Fn: "ReadBasicTypeList", Args: map[string]any{"count": cnt, "elem": el, "vals": []any{}, "pw": pw, "ek": ek, "le": le}, Tag: "read-back"})
						}
						if err := c.Run(ops); err != nil {
							return err
						}
					}
				}
			}
			// texts and text lists: prefix widths pw x pw2; lengths chosen so that no prefix is a palindrome
			for _, pw2 := range []int{1, 2, 4, 8} {
				for _, le := range []bool{false, true} {
					l1 := 1 + r.Intn(40)
					s := c.junk(l1)
					ops := []Op{{Op: "prim", B: "s", Fn: "WriteString", Args: map[string]any{"s": s, "pw": pw, "le": le}}}
					in := append(prefixBytes(l1, pw, le), s...)
					ops = append(ops, Op{Op: "load", B: "sr", Bytes: append(in, 1, 2)}, Op{Op: "prim", B: "sr", Fn: "ReadString", Args: map[string]any{"pw": pw, "le": le}})
					cnt := 1 + r.Intn(3)
					vals := make([][]int, cnt)
					lin := prefixBytes(cnt, pw, le)
					for i := range vals {
						vals[i] = c.junk(1 + r.Intn(20))
						lin = append(lin, prefixBytes(len(vals[i]), pw2, le)...)
						lin = append(lin, vals[i]...)
					}
					ops = append(ops, Op{Op: "prim", B: "l", Fn: "WriteStringList", Args: map[string]any{"vals": anyList(vals), "pw": pw, "pw2": pw2, "le": le}},
						Op{Op: "load", B: "lr", Bytes: lin}, Op{Op: "prim", B: "lr", Fn: "ReadStringList", Args: map[string]any{"pw": pw, "pw2": pw2, "le": le}})
					// fixed text lists: only the count is an integer
					fv := [][]int{{65, 66}, {67}, {}}
					fin := prefixBytes(3, pw, le)
					fin = append(fin, 65, 66, 32, 67, 32, 32, 32, 32, 32)
					ops = append(ops, Op{Op: "prim", B: "f", Fn: "WriteFixedStringList", Args: map[string]any{"vals": anyList(fv), "n": 3, "pw": pw, "le": le}},
						Op{Op: "load", B: "fr", Bytes: fin}, Op{Op: "prim", B: "fr", Fn: "ReadFixedStringList", Args: map[string]any{"n": 3, "pw": pw, "le": le}})
					// object lists: little-endian protocol elements with the LE variant, big-endian with the BE one
					et := "szse.PlatformPartition"
					if le {
						et = "sample.SubPacket"
					}
					oc := 1 + r.Intn(3)
					objs := make([]any, oc)
					oin := prefixBytes(oc, pw, le)
					for i := range objs {
						v := c.G.Value(et, Canon)
						objs[i] = v
						o, err := Build(v)
						if err != nil {
							return err
						}
						cd, _ := AsCodec(o)
						var bb bytes.Buffer
						if err := cd.Encode(&bb); err != nil {
							return err
						}
						oin = append(oin, B2I(bb.Bytes())...)
					}
					ops = append(ops, Op{Op: "prim", B: "o", Fn: "WriteObjectList", Args: map[string]any{"objs": objs, "pw": pw, "le": le, "t": et}},
						Op{Op: "load", B: "or", Bytes: oin}, Op{Op: "prim", B: "or", Fn: "ReadObjectList", Args: map[string]any{"pw": pw, "le": le, "t": et}})
					if err := c.Run(ops); err != nil {
						return err
					}
				}
			}
		}
	}
	return nil
}

// ---- C18 -----------------------------------------------------------------------------------

func drivePrimLimits(c *DriverCtx) error {
	type lim struct {
		pw   int
		lens []int
	}
	lims := []lim{{1, []int{0, 1, 254, 255, 256, 257, 300, 511, 512}}}
	l16 := []int{65535, 65536}
	if c.N > 1 {
		l16 = []int{65534, 65535, 65536, 65537, 131072}
	}
	lims = append(lims, lim{2, l16})
	for _, lm := range lims {
		maxv := 1<<(8*lm.pw) - 1
		for _, n := range lm.lens {
			for _, le := range []bool{false, true} {
				over := n > maxv
				ops := []Op{}
				add := func(fn string, args map[string]any, rfn string, rargs map[string]any) {
					args["pw"], args["le"] = lm.pw, le
					b := fmt.Sprintf("b%d", len(ops))
					if over {
						args["nopost"] = true
					}
					ops = append(ops, Op{Op: "prim", B: b, Fn: fn, Args: args})
					if !over {
						rargs["pw"], rargs["le"] = lm.pw, le
						ops = append(ops, Op{Op: "prim", B: b, Fn: rfn, Args: rargs, Tag: "read-back"})
					}
					if n >= maxv {
						// the same call into a recycled buffer with far more spare capacity than the value needs
						// (earlier content, Reset): the limit does not depend on whether the buffer has to grow
						br := b + "roomy"
						ops = append(ops, Op{Op: "fill", B: br, Args: map[string]any{"runs": []any{map[string]any{"b": 0xAA, "n": 3*n + 70000}}}}, Op{Op: "reset", B: br},
							Op{Op: "prim", B: br, Fn: fn, Args: args, Tag: "roomy-recycled-buffer"})
					}
				}
				add("WriteString", map[string]any{"runs": []any{map[string]any{"b": 0x41, "n": n}}, "s": []int{}}, "ReadString", map[string]any{})
				add("WriteBasicTypeList", map[string]any{"count": n, "elem": ia(0x81), "vals": []any{}, "ek": "u8"}, "ReadBasicTypeList", map[string]any{"ek": "u8"})
				if n <= 65536+1 {
					add("WriteBasicTypeList", map[string]any{"count": n, "elem": ia(1, 2, 3, 4), "vals": []any{}, "ek": "u32"}, "ReadBasicTypeList", map[string]any{"ek": "u32"})
					add("WriteFixedStringList", map[string]any{"count": n, "elem": ia(0x42), "vals": []any{}, "n": 1}, "ReadFixedStringList", map[string]any{"n": 1})
					add("WriteFixedStringListWithPadding", map[string]any{"count": n, "elem": ia(0x42), "vals": []any{}, "n": 2, "pad": 0x30, "left": true}, "ReadFixedStringListTrimPadding", map[string]any{"n": 2, "pad": 0x30, "left": true})
					add("WriteStringList", map[string]any{"count": n, "elem": ia(0x43), "vals": []any{}, "pw2": 1}, "ReadStringList", map[string]any{"pw2": 1})
					if n > 0 {
						// a text list whose INNER prefix is the one at its limit (outer prefix 16 bits)
						ia2 := map[string]any{"vals": []any{ia(1), make([]int, n)}, "pw": 2, "pw2": lm.pw, "le": le}
						b := fmt.Sprintf("b%d", len(ops))
						if over {
							ia2["nopost"] = true
						}
						ops = append(ops, Op{Op: "prim", B: b, Fn: "WriteStringList", Args: ia2, Tag: "inner-prefix"})
						if !over {
							ops = append(ops, Op{Op: "prim", B: b, Fn: "ReadStringList", Args: map[string]any{"pw": 2, "pw2": lm.pw, "le": le}, Tag: "read-back"})
						}
					}
					if n > 0 && lm.pw == 2 {
						// an element that does not fit its prefix AFTER 64 KiB of elements that do
						ia3 := map[string]any{"vals": []any{make([]int, 65535), make([]int, n)}, "pw": 2, "pw2": 2, "le": le}
						b := fmt.Sprintf("b%d", len(ops))
						if over {
							ia3["nopost"] = true
						}
						ops = append(ops, Op{Op: "prim", B: b, Fn: "WriteStringList", Args: ia3, Tag: "late-element"})
					}
					et := "szse.PlatformPartition"
					if le {
						et = "sample.SubPacket"
					}
					add("WriteObjectList", map[string]any{"count": n, "obj": c.G.Value(et, Canon), "objs": []any{}, "t": et}, "ReadObjectList", map[string]any{"t": et})
					if over {
						// too many entries, one of them nil: the count still does not fit
						add("WriteObjectList", map[string]any{"count": n, "nilat": n / 2, "obj": c.G.Value(et, Canon), "objs": []any{}, "t": et}, "ReadObjectList", map[string]any{"t": et})
					}
				}
				if err := c.Run(ops); err != nil {
					return err
				}
			}
		}
	}
	return nil
}

// Message level: every pinned field kind behind a 16-bit prefix, at and beyond the limit.
func driveMsgLimits(c *DriverCtx) error {
	rep := func(n int, e []int) []any {
		out := make([]any, n)
		for i := range out {
			out[i] = e
		}
		return out
	}
	lens := []int{65535, 65536}
	if c.N > 1 {
		lens = []int{65534, 65535, 65536, 65537}
	}
	for _, n := range lens {
		cases := []struct {
			t, f string
			v    any
		}{
			{"sse.ExecRptInfo", "SetId", rep(n, ia(0, 0, 1, 2))},
			{"sse.ExecRptInfo", "Pbu", rep(n, ia(0x50))},
			{"sample.StringPacket", "FieldDynamicString", make([]int, n)},
			{"sample.StringPacket", "FieldDynamicStringList", rep(n, ia())},
			{"sample.StringPacket", "FieldFixedString1List", rep(n, ia(0x31))},
			{"sample.BasicPacket", "FieldU8List", rep(n, ia(7))},
			{"sample.BasicPacket", "FieldCharList", rep(n, ia(0x32))},
			{"hw.RiskControlRequest", "UniqueOrderID", make([]int, n)},
			{"hw.RiskControlRequest", "ExtraInfo", rep(n, ia())},
		}
		for _, cs := range cases {
			c.G.Small = true
			v := c.G.Value(cs.t, Canon)
			c.G.Small = false
			v[cs.f] = cs.v
			ops := []Op{{Op: "new", O: "m", V: v}, {Op: "encode", B: "b", O: "m", Tag: fmt.Sprintf("%s.%s len=%d", cs.t, cs.f, n)}}
			if n <= 65535 {
				ops = append(ops, Op{Op: "decode", B: "b", O: "r", T: cs.t, Fresh: true})
			}
			// the same message into a recycled buffer with far more spare capacity than it needs
			ops = append(ops, Op{Op: "fill", B: "roomy", Args: map[string]any{"runs": []any{map[string]any{"b": 0xAA, "n": 700000}}}}, Op{Op: "reset", B: "roomy"},
				Op{Op: "encode", B: "roomy", O: "m", Tag: fmt.Sprintf("%s.%s len=%d into a roomy recycled buffer", cs.t, cs.f, n)})
			if err := c.Run(ops); err != nil {
				return err
			}
		}
		// an over-long value INSIDE an element of an object list (and inside a nested part): the
		// element's refusal must surface from the enclosing message
		for _, t := range TypeNames() {
			for _, f := range S.Types[t].Fields {
				if f.Kind != "objlist" && f.Kind != "obj" {
					continue
				}
				for _, ef := range S.Types[f.Type].Fields {
					if !(ef.Kind == "list" || ef.Kind == "str") || ef.PW != 2 {
						continue
					}
					c.G.Small = true
					v := c.G.Value(t, Canon)
					inner := c.G.Value(f.Type, Canon)
					ok1 := c.G.Value(f.Type, Canon)
					c.G.Small = false
					if ef.Kind == "str" {
						inner[ef.Name] = make([]int, n)
					} else {
						switch ef.Elem.Kind {
						case "int":
							inner[ef.Name] = rep(n, make([]int, ef.Elem.W))
						default:
							inner[ef.Name] = rep(n, ia())
						}
					}
					if f.Kind == "objlist" {
						v[f.Name] = []any{ok1, inner, ok1}
					} else {
						v[f.Name] = inner
					}
					ops := []Op{{Op: "new", O: "m", V: v}, {Op: "encode", B: "b", O: "m", Tag: fmt.Sprintf("%s.%s[..].%s len=%d", t, f.Name, ef.Name, n)}}
					if n <= 65535 {
						ops = append(ops, Op{Op: "decode", B: "b", O: "r", T: t, Fresh: true})
					}
					if err := c.Run(ops); err != nil {
						return err
					}
				}
			}
		}
		// a text-list element that does not fit, AFTER 64 KiB of elements that do
		for _, cs := range []struct{ t, f string }{{"hw.RiskControlRequest", "ExtraInfo"}, {"sample.StringPacket", "FieldDynamicStringList"}} {
			c.G.Small = true
			v := c.G.Value(cs.t, Canon)
			c.G.Small = false
			v[cs.f] = []any{make([]int, 65535), make([]int, n)}
			ops := []Op{{Op: "new", O: "m", V: v}, {Op: "encode", B: "b", O: "m", Tag: fmt.Sprintf("%s.%s late element of %d bytes", cs.t, cs.f, n)}}
			if n <= 65535 {
				ops = append(ops, Op{Op: "decode", B: "b", O: "r", T: cs.t, Fresh: true})
			}
			if err := c.Run(ops); err != nil {
				return err
			}
		}
		// object lists
		sub := c.G.Value("sample.SubPacket", Canon)
		sub["FieldI16List"] = []any{}
		v := c.G.Value("sample.NestedPacket", Canon)
		v["SubPacketList"] = rep2(n, sub)
		ops := []Op{{Op: "new", O: "m", V: v}, {Op: "encode", B: "b", O: "m", Tag: fmt.Sprintf("sample.NestedPacket.SubPacketList len=%d", n)}}
		if n <= 65535 {
			ops = append(ops, Op{Op: "decode", B: "b", O: "r", T: "sample.NestedPacket", Fresh: true})
		}
		if err := c.Run(ops); err != nil {
			return err
		}
		if n > 65535 {
			// too many entries, one of them a nil pointer: the count does not fit either way
			lst := rep2(n, sub)
			lst[n/3] = map[string]any{"_t": "nil"}
			v2 := c.G.Value("sample.NestedPacket", Canon)
			v2["SubPacketList"] = lst
			if err := c.Run([]Op{{Op: "new", O: "m", V: v2}, {Op: "encode", B: "b", O: "m", Tag: fmt.Sprintf("sample.NestedPacket.SubPacketList len=%d with a nil entry", n)}}); err != nil {
				return err
			}
		}
	}
	return nil
}

func rep2(n int, e map[string]any) []any {
	out := make([]any, n)
	for i := range out {
		out[i] = e
	}
	return out
}

// ---- C14 -----------------------------------------------------------------------------------

var algs = []string{"CRC16", "CRC32", "SSE_BIN", "SZSE_BIN"}

func calcOps(b string, content []int, pre int) []Op {
	// pre junk bytes are written and consumed first, so the unread region starts inside the
	// backing array (Calc must look at the unread bytes only)
	ops := []Op{}
	if pre > 0 {
		ops = append(ops, Op{Op: "write", B: b, Bytes: make([]int, pre)}, Op{Op: "next", B: b, K: pre})
	}
	ops = append(ops, Op{Op: "write", B: b, Bytes: content})
	for _, a := range algs {
		ops = append(ops, Op{Op: "calc", B: b, Alg: a})
	}
	ops = append(ops, Op{Op: "calc", B: b, Alg: algs[len(content)%4], Tag: "again"})
	return ops
}

func driveCalc(c *DriverCtx) error {
	r := c.G.R
	for x := 0; x < 256; x++ {
		if err := c.Run(calcOps("b", []int{x}, x%3)); err != nil {
			return err
		}
	}
	if err := c.Run(calcOps("b", []int{}, 0)); err != nil {
		return err
	}
	a32 := []int{0, 1, 2, 0x0f, 0x10, 0x7e, 0x7f, 0x80, 0x81, 0xfe, 0xff, 0x55, 0xaa, 0x31, 0x39, 0x41,
		0x20, 0x30, 0xc3, 0xa9, 0xe9, 0x0a, 0x0d, 0x1b, 0x40, 0x5a, 0x61, 0x7a, 0xf0, 0xe0, 0x08, 0x04}
	for _, x := range a32 {
		for _, y := range a32 {
			if err := c.Run(calcOps("b", []int{x, y}, 0)); err != nil {
				return err
			}
		}
	}
	a8 := []int{0, 1, 0x7f, 0x80, 0xff, 0x55, 0xaa, 0x31}
	for _, x := range a8 {
		for _, y := range a8 {
			for _, z := range a8 {
				if err := c.Run(calcOps("b", []int{x, y, z}, 1)); err != nil {
					return err
				}
			}
		}
	}
	if err := c.Run(calcOps("b", []int{49, 50, 51, 52, 53, 54, 55, 56, 57}, 0)); err != nil {
		return err
	}
	// residue inputs: a message followed by ITS OWN checksum (either byte order) and a few more bytes - the
	// running register of a CRC passes through its fixed points exactly there
	for i := 0; i < 12*c.N; i++ {
		msg := c.junk([]int{6, 14, 30, 62, 126, 254, 510}[i%7])
		for _, alg := range []string{"CRC16", "CRC32"} {
			m := NewMachine()
			if _, err := m.Exec(Op{Op: "write", B: "b", Bytes: msg}); err != nil {
				return err
			}
			ev, err := m.Exec(Op{Op: "calc", B: "b", Alg: alg})
			if err != nil {
				return err
			}
			for _, crc := range [][]int{ev.Out, rev(ev.Out)} {
				for extra := 0; extra <= 9; extra++ {
					if err := c.Run(calcOps("b", append(append(append([]int{}, msg...), crc...), c.junk(extra)...), 0)); err != nil {
						return err
					}
				}
			}
		}
	}
	for i := 0; i < 40*c.N; i++ {
		n := 4 + r.Intn(300)
		if i%10 == 0 {
			n = 1000 + r.Intn(3000)
		}
		s := c.junk(n)
		if i%3 == 0 { // many high bytes: sums far above 256, signed/unsigned byte confusion
			for j := range s {
				s[j] |= 0x80
			}
		}
		if err := c.Run(calcOps("b", s, r.Intn(4))); err != nil {
			return err
		}
	}
	return nil
}

// The same buffer object reused for different contents of the same length and the same first and
// last bytes (C14: the result is a function of the bytes, not of where they live).
func driveCalcReuse(c *DriverCtx) error {
	r := c.G.R
	for i := 0; i < 60*c.N; i++ {
		n := []int{16, 63, 64, 65, 100, 256, 300, 1000}[i%8]
		x := c.junk(n)
		y := append([]int{}, x...)
		y[n/2] ^= 0x5a
		if n > 40 {
			y[20+r.Intn(n-40)] ^= 0x01
		}
		ops := []Op{{Op: "write", B: "b", Bytes: x}}
		for _, a := range algs {
			ops = append(ops, Op{Op: "calc", B: "b", Alg: a})
		}
		ops = append(ops, Op{Op: "reset", B: "b"}, Op{Op: "write", B: "b", Bytes: y})
		for _, a := range algs {
			ops = append(ops, Op{Op: "calc", B: "b", Alg: a, Tag: "same-buffer-new-content"})
		}
		// and patched in place
		ops = append(ops, Op{Op: "poke", B: "b", K: n / 3, Bytes: []int{(y[n/3] + 1) % 256}})
		for _, a := range algs {
			ops = append(ops, Op{Op: "calc", B: "b", Alg: a, Tag: "patched-in-place"})
		}
		if err := c.Run(ops); err != nil {
			return err
		}
	}
	// what lies BEHIND the end of the buffer in its backing array is not input: shorter content written after
	// a Reset over longer, non-zero content (every length modulo 8 and 16), and a buffer over a prefix of a larger slice
	lens := []int{}
	for l := 0; l <= 33; l++ {
		lens = append(lens, l)
	}
	for k := 0; k < 6*c.N; k++ {
		lens = append(lens, 34+r.Intn(500))
	}
	for _, l := range lens {
		stale := make([]int, l+64)
		for j := range stale {
			stale[j] = 0x80 | r.Intn(128)
		}
		content := c.junk(l)
		ops := []Op{{Op: "write", B: "b", Bytes: stale}, {Op: "reset", B: "b"}, {Op: "write", B: "b", Bytes: content}}
		for _, a := range algs {
			ops = append(ops, Op{Op: "calc", B: "b", Alg: a, Tag: "shorter-content-after-reset"})
		}
		ops = append(ops, Op{Op: "write", B: "b2", Bytes: stale}, Op{Op: "next", B: "b2", K: len(stale)}, Op{Op: "write", B: "b2", Bytes: content})
		for _, a := range algs {
			ops = append(ops, Op{Op: "calc", B: "b2", Alg: a, Tag: "content-after-drained-content"})
		}
		if l > 0 {
			ops = append(ops, Op{Op: "load", B: "b3", Bytes: append(append([]int{}, content...), stale[:24]...), K: l})
			for _, a := range algs {
				ops = append(ops, Op{Op: "calc", B: "b3", Alg: a, Tag: "prefix-of-a-larger-slice"})
			}
		}
		if err := c.Run(ops); err != nil {
			return err
		}
	}
	return nil
}

func init() { Drivers["calc-reuse"] = driveCalcReuse }

// Length / count sweeps: every prefixed primitive with EVERY length (count) in a range, written
// and read back (and followed by a sentinel byte, so that consumption is visible). Exhaustive
// over the range rather than sampled: chunked loops, scratch buffers and batch sizes have their
// fenceposts at lengths nobody would guess.
func drivePrimSweep(c *DriverCtx) error {
	max := 1100
	if c.N > 1 {
		max = 2400
	}
	type fam struct {
		wfn, rfn string
		args     func(n int) map[string]any
	}
	one := func(v ...int) []int { return v }
	fams := []fam{
		{"WriteString", "ReadString", func(n int) map[string]any {
			return map[string]any{"runs": []any{map[string]any{"b": 0x41 + n%26, "n": n}}, "s": []int{}}
		}},
		{"WriteBasicTypeList", "ReadBasicTypeList", func(n int) map[string]any {
			return map[string]any{"ek": "u8", "count": n, "elem": one(1 + n%200), "vals": []any{}}
		}},
		{"WriteBasicTypeList", "ReadBasicTypeList", func(n int) map[string]any {
			return map[string]any{"ek": "i16", "count": n, "elem": one(1, 2), "vals": []any{}}
		}},
		{"WriteBasicTypeList", "ReadBasicTypeList", func(n int) map[string]any {
			return map[string]any{"ek": "u32", "count": n, "elem": one(1, 2, 3, 4), "vals": []any{}}
		}},
		{"WriteBasicTypeList", "ReadBasicTypeList", func(n int) map[string]any {
			return map[string]any{"ek": "f64", "count": n, "elem": one(1, 2, 3, 4, 5, 6, 7, 8), "vals": []any{}}
		}},
		{"WriteFixedStringList", "ReadFixedStringList", func(n int) map[string]any {
			return map[string]any{"n": 1, "count": n, "elem": one(0x42), "vals": []any{}}
		}},
		{"WriteFixedStringListWithPadding", "ReadFixedStringListTrimPadding", func(n int) map[string]any {
			return map[string]any{"n": 3, "pad": 0x30, "left": true, "count": n, "elem": one(0x43, 0x44), "vals": []any{}}
		}},
		{"WriteStringList", "ReadStringList", func(n int) map[string]any {
			return map[string]any{"pw2": 1, "count": n, "elem": one(0x45), "vals": []any{}}
		}},
		{"WriteFixedStringList", "ReadFixedStringList", func(n int) map[string]any {
			return map[string]any{"n": 8, "count": n, "elem": one(0x50, 0x51), "vals": []any{}}
		}},
		{"WriteFixedStringListWithPadding", "ReadFixedStringListTrimPadding", func(n int) map[string]any {
			return map[string]any{"n": 16, "pad": 0x20, "left": false, "count": n, "elem": one(0x52, 0x53, 0x54), "vals": []any{}}
		}},
		// the LENGTH of one element of a text list (its own prefix is written by another code path than a plain text's)
		{"WriteStringList", "ReadStringList", func(n int) map[string]any {
			el := make([]int, n)
			for i := range el {
				el[i] = 0x61 + (n+i)%23
			}
			return map[string]any{"pw2": 2, "vals": anyList([][]int{el, {0x46}})}
		}},
	}
	// counts at which block-wise code has its fenceposts, beyond the dense range: powers of two
	// and round decimal numbers (thorough: with their neighbours; 2^14 and more for one-byte elements only)
	extra, extraBig := []int{}, []int{}
	if c.N <= 1 {
		extra = []int{1536, 2000, 2048, 4096}
	} else {
		for j := 13; j <= 16; j++ {
			for _, d := range []int{-1, 0, 1} {
				if v := 1<<j + d; v <= 65535 {
					if v <= 8193 {
						extra = append(extra, v)
					} else {
						extraBig = append(extraBig, v)
					}
				}
			}
		}
		extra = append(extra, 5000, 6000, 6144, 7000, 8000)
		extraBig = append(extraBig, 10000, 12288, 20000, 30000, 50000, 60000)
	}
	light := os.Getenv("VERIF_SWEEP_LIGHT") != ""
	for fi, f := range fams {
		for _, cfg := range []struct {
			pw int
			le bool
		}{{2, false}, {2, true}, {4, false}, {4, true}} {
			if c.N <= 1 && (fi+cfg.pw/2+boolToInt(cfg.le))%2 == 1 {
				continue // quick tier: half of the (family, prefix, order) combinations, alternating
			}
			ops := []Op{}
			counts := []int{}
			for n := 0; n <= max; n++ {
				if fi >= 3 && fi != 5 && n > 1100 && n%7 != 0 && n%256 != 0 && n%1000 != 0 && c.N > 1 { // wide elements: beyond 1100 every 7th length and the round ones
					continue
				}
				counts = append(counts, n)
			}
			counts = append(counts, extra...)
			if fi == 1 || fi == 5 {
				counts = append(counts, extraBig...)
			}
			for _, n := range counts {
				a := f.args(n)
				a["pw"], a["le"] = cfg.pw, cfg.le
				b := fmt.Sprintf("b%d", n%50)
				scalar := map[string]any{"v": []int{1, 2, 3, 4, 5, 6, 7, 8}, "ek": "u64", "le": cfg.le}
				if light {
					// write and read back only (byte order and agreement with the pinned rendering; the cuts are C11's)
					if n > 600 && n%5 != 0 && n%256 > 1 {
						continue
					}
					ops = append(ops, Op{Op: "reset", B: b}, Op{Op: "prim", B: b, Fn: f.wfn, Args: a, Tag: "sweep"},
						Op{Op: "prim", B: b, Fn: f.rfn, Args: a, Tag: "read-back"})
					if len(ops) >= 250 {
						if err := c.Run(ops); err != nil {
							return err
						}
						ops = []Op{}
					}
					continue
				}
				ops = append(ops, Op{Op: "reset", B: b}, Op{Op: "prim", B: b, Fn: f.wfn, Args: a, Tag: "sweep"},
					Op{Op: "cut", B: b + "c", From: b, K: -1 - n%4, Tag: "all-but-the-last-bytes"}, Op{Op: "prim", B: b + "c", Fn: f.rfn, Args: a, Tag: "truncated"},
					// the same followed by a further field, cut inside that field: the two reads together must not succeed
					Op{Op: "reset", B: b + "d"}, Op{Op: "prim", B: b + "d", Fn: f.wfn, Args: a}, Op{Op: "prim", B: b + "d", Fn: "WriteBasicType", Args: scalar},
					Op{Op: "cut", B: b + "e", From: b + "d", K: -1 - n%4}, Op{Op: "prim", B: b + "e", Fn: f.rfn, Args: a, Tag: "list-then-field"},
					Op{Op: "prim", B: b + "e", Fn: "ReadBasicType", Args: scalar, Tag: "field-after-list-truncated"},
					Op{Op: "write", B: b, Bytes: []int{0xEE}},
					Op{Op: "prim", B: b, Fn: f.rfn, Args: a, Tag: "read-back"}, Op{Op: "peek", B: b})
				if len(ops) >= 250 || n > 1100 {
					if err := c.Run(ops); err != nil {
						return err
					}
					ops = []Op{}
				}
			}
			if len(ops) > 0 {
				if err := c.Run(ops); err != nil {
					return err
				}
			}
		}
	}
	return nil
}

func boolToInt(b bool) int {
	if b {
		return 1
	}
	return 0
}

func init() { Drivers["prim-sweep"] = drivePrimSweep }

func driveCalcExhaustive2(c *DriverCtx) error {
	// all strings of exactly 2 bytes (65,536) - with driveCalc's 0- and 1-byte strings this is every string of <= 2 bytes
	for x := 0; x < 256; x++ {
		ops := []Op{}
		for y := 0; y < 256; y++ {
			b := fmt.Sprintf("b%d", y)
			ops = append(ops, Op{Op: "write", B: b, Bytes: []int{x, y}})
			for _, a := range algs {
				ops = append(ops, Op{Op: "calc", B: b, Alg: a})
			}
		}
		if err := c.Run(ops); err != nil {
			return err
		}
	}
	return nil
}

func driveCalcGiant(c *DriverCtx) error {
	run := func(runs []any, crc bool) error {
		ops := []Op{{Op: "fill", B: "g", Args: map[string]any{"runs": runs}}}
		for _, a := range algs {
			if !crc && (a == "CRC16" || a == "CRC32") {
				continue
			}
			ops = append(ops, Op{Op: "calc", B: "g", Alg: a})
		}
		return c.Run(ops)
	}
	rr := func(b, n int) map[string]any { return map[string]any{"b": b, "n": n} }
	giants := [][]any{
		{rr(0xff, 8421505)},                // 255 * 8,421,505 = 2^31 + 127: a signed 32-bit sum goes negative
		{rr(0xff, 8421504), rr(0x80, 1)},   // 2^31 - 128 + ... just below/around the sign boundary
		{rr(0xff, 8421504)},                // 2,147,483,520 < 2^31
		{rr(0x80, 16777216), rr(0x01, 3)},  // exactly 2^31 + 3
		{rr(0x01, 70000), rr(0xfe, 70000)}, // beyond 64 KiB, mixed
		{rr(0xff, 16843010)},               // 2^32 + ...: an unsigned 32-bit sum wraps
		{rr(0xff, 67373056)},               // 64 MiB + 256 KiB of 0xFF: a quarter of the bytes sum beyond 2^32
	}
	if c.N > 1 {
		giants = append(giants, []any{rr(0xff, 33686020)}, []any{rr(0x7f, 20000000), rr(0xff, 9000000)})
	}
	for _, g := range giants {
		if err := run(g, false); err != nil {
			return err
		}
	}
	// CRCs on long inputs (TLC recomputes them: kept to what it can do in seconds)
	crcLens := []int{70000}
	if c.N > 1 {
		crcLens = []int{70000, 300000}
	}
	for _, n := range crcLens {
		if err := run([]any{rr(0xa5, n/2), rr(0x00, 17), rr(0xff, n/2)}, true); err != nil {
			return err
		}
	}
	return nil
}

// Truncations at primitive level (C11): what a writer produced, cut at every position, given to
// the matching reader - which must return an error.
func drivePrimCut(c *DriverCtx) error {
	r := c.G.R
	type wr struct {
		wfn, rfn string
		args     map[string]any
	}
	for rep := 0; rep < c.N; rep++ {
		for _, pw := range []int{1, 2, 4, 8} {
			for _, le := range []bool{false, true} {
				n := 1 + r.Intn(6)
				cases := []wr{
					{"WriteString", "ReadString", map[string]any{"s": c.junk(1 + r.Intn(12))}},
					{"WriteBasicTypeList", "ReadBasicTypeList", map[string]any{"ek": "i32", "vals": anyList([][]int{c.junk(4), c.junk(4), c.junk(4)})}},
					{"WriteBasicTypeList", "ReadBasicTypeList", map[string]any{"ek": "u8", "vals": anyList([][]int{c.junk(1), c.junk(1)})}},
					{"WriteFixedStringList", "ReadFixedStringList", map[string]any{"n": n, "vals": anyList([][]int{c.junk(n), c.junk(1)})}},
					{"WriteFixedStringListWithPadding", "ReadFixedStringListTrimPadding", map[string]any{"n": n, "pad": 0x30, "left": true, "vals": anyList([][]int{c.junk(n)})}},
					{"WriteStringList", "ReadStringList", map[string]any{"pw2": []int{1, 2, 4, 8}[r.Intn(4)], "vals": anyList([][]int{c.junk(3), {}, c.junk(5)})}},
					{"WriteFixedStringWithPadding", "ReadFixedStringTrimPadding", map[string]any{"n": n + 1, "pad": 0x20, "left": false, "s": c.junk(n)}},
					{"WriteBasicType", "ReadBasicType", map[string]any{"ek": "u64", "v": c.junk(8)}},
				}
				for _, cs := range cases {
					cs.args["pw"], cs.args["le"] = pw, le
					m := NewMachine()
					ev, err := m.Exec(Op{Op: "prim", B: "b", Fn: cs.wfn, Args: cs.args})
					if err != nil {
						return err
					}
					w := ev.Post
					ops := []Op{}
					for k := 0; k < len(w); k++ {
						b := fmt.Sprintf("c%d", k)
						ops = append(ops, Op{Op: "load", B: b, Bytes: w[:k]}, Op{Op: "prim", B: b, Fn: cs.rfn, Args: cs.args, Tag: "truncated"})
					}
					ops = append(ops, Op{Op: "load", B: "full", Bytes: w}, Op{Op: "prim", B: "full", Fn: cs.rfn, Args: cs.args, Tag: "complete"})
					if err := c.Run(ops); err != nil {
						return err
					}
				}
			}
		}
	}
	return nil
}

func init() { Drivers["prim-cut"] = drivePrimCut }

// prim-cut-long: length-prefixed texts and lists too long for any scratch block or chunk size a reader might use
// (beyond 64 KiB behind 32- and 64-bit prefixes, just below it behind 16-bit ones), cut short at the places where a
// chunked reader would notice last: one byte before the end, inside the last 4 KiB block, just past 64 KiB.
func drivePrimCutLong(c *DriverCtx) error {
	r := c.G.R
	for rep := 0; rep < c.N; rep++ {
		for _, pw := range []int{2, 4, 8} {
			for _, le := range []bool{false, true} {
				lens := []int{65536, 70000 + r.Intn(3000)}
				if pw == 2 {
					lens = []int{65535, 60000 + r.Intn(5000)}
				}
				for _, L := range lens {
					txt := make([]int, L)
					for i := range txt {
						txt[i] = 0x41 + (i*7+L)%23
					}
					type wr struct {
						wfn, rfn string
						args     map[string]any
					}
					cases := []wr{{"WriteString", "ReadString", map[string]any{"s": txt}}}
					if L != 65536 {
						el := make([][]int, L/4)
						for i := range el {
							el[i] = []int{i >> 8 & 0xFF, i & 0xFF, 0x5A, i * 3 & 0xFF}
						}
						if pw == 2 && len(el) > 16383 {
							el = el[:16383]
						}
						cases = append(cases, wr{"WriteBasicTypeList", "ReadBasicTypeList", map[string]any{"ek": "u32", "vals": anyList(el)}})
					}
					for _, cs := range cases {
						cs.args["pw"], cs.args["le"] = pw, le
						m := NewMachine()
						ev, err := m.Exec(Op{Op: "prim", B: "b", Fn: cs.wfn, Args: cs.args})
						if err != nil {
							return err
						}
						w := ev.Post
						if ev.Res != "ok" || len(w) < pw+100 {
							continue
						}
						ops := []Op{}
						for _, k := range []int{len(w) - 1, len(w) - 2 - r.Intn(4000), pw + 65535 - r.Intn(4096)} {
							if k <= pw || k >= len(w) {
								continue
							}
							b := fmt.Sprintf("c%d", k)
							ra := map[string]any{"pw": pw, "le": le}
							if ek, ok := cs.args["ek"]; ok {
								ra["ek"] = ek
							}
							ops = append(ops, Op{Op: "load", B: b, Bytes: w[:k]}, Op{Op: "prim", B: b, Fn: cs.rfn, Args: ra, Tag: "truncated"})
						}
						if err := c.Run(ops); err != nil {
							return err
						}
					}
				}
			}
		}
	}
	return nil
}

func init() { Drivers["prim-cut-long"] = drivePrimCutLong }
