package main

import (
	"bufio"
	"encoding/json"
	"flag"
	"fmt"
	"os"
	"reflect"

	"vharness/vh"
)

// replay (direction A): behaviours exported by TLC from the WireMachine model are executed on
// the real types; after every step the observation (result, unread bytes, object) must equal
// what the specification computed. One implementation test per transition of the state graph.
type behaviourStep struct {
	Op    string         `json:"op"`
	M     int            `json:"m"`
	T     string         `json:"t"`
	K     int            `json:"k"`
	Bytes []int          `json:"bytes"`
	Res   string         `json:"res"`
	Post  []int          `json:"post"`
	VPost map[string]any `json:"vpost"`
	Used  int            `json:"used"`
	Alg   string         `json:"alg"`
	Kept  bool           `json:"kept"` // the decode goes into the receiver of this type kept for the whole behaviour
}

type replayResult struct {
	N         int    `json:"n"`
	Verdict   string `json:"verdict"`
	Step      int    `json:"step"`
	Why       string `json:"why"`
	Behaviour any    `json:"behaviour,omitempty"`
}

func canon(x any) any {
	data, _ := json.Marshal(x)
	var out any
	json.Unmarshal(data, &out)
	return normEmpty(out)
}

// an absent and an empty list are the same; JSON null and [] too
func normEmpty(x any) any {
	switch v := x.(type) {
	case nil:
		return []any{}
	case []any:
		out := make([]any, len(v))
		for i, e := range v {
			out[i] = normEmpty(e)
		}
		return out
	case map[string]any:
		out := map[string]any{}
		for k, e := range v {
			out[k] = normEmpty(e)
		}
		return out
	}
	return x
}

func sameJSON(a, b any) bool { return reflect.DeepEqual(canon(a), canon(b)) }

func replay(args []string) error {
	fs := flag.NewFlagSet("replay", flag.ExitOnError)
	vals := fs.String("values", "", "the model's message universe (ndjson of {t,v})")
	in := fs.String("in", "", "behaviours (ndjson, one array of steps per line)")
	out := fs.String("out", "", "results (ndjson)")
	fs.Parse(args)
	var msgs []map[string]any
	vf, err := os.Open(*vals)
	if err != nil {
		return err
	}
	sc := bufio.NewScanner(vf)
	sc.Buffer(make([]byte, 1<<20), 1<<26)
	for sc.Scan() {
		var m struct {
			T string         `json:"t"`
			V map[string]any `json:"v"`
		}
		if err := json.Unmarshal(sc.Bytes(), &m); err != nil {
			return err
		}
		msgs = append(msgs, m.V)
	}
	vf.Close()
	fin, err := os.Open(*in)
	if err != nil {
		return err
	}
	defer fin.Close()
	fout, err := os.Create(*out)
	if err != nil {
		return err
	}
	defer fout.Close()
	w := bufio.NewWriter(fout)
	defer w.Flush()
	enc := json.NewEncoder(w)
	sc = bufio.NewScanner(fin)
	sc.Buffer(make([]byte, 1<<20), 1<<28)
	n := 0
	for sc.Scan() {
		n++
		var steps []behaviourStep
		if err := json.Unmarshal(sc.Bytes(), &steps); err != nil {
			return fmt.Errorf("behaviour %d: %w", n, err)
		}
		m := vh.NewMachine()
		for i, v := range msgs {
			if _, err := m.Exec(vh.Op{Op: "new", O: fmt.Sprintf("m%d", i+1), V: v}); err != nil {
				return err
			}
		}
		res := replayResult{N: n, Verdict: "ok"}
		fail := func(i int, why string) {
			var raw any
			json.Unmarshal(sc.Bytes(), &raw)
			res = replayResult{N: n, Verdict: "violation", Step: i, Why: why, Behaviour: raw}
		}
	steps:
		for i, st := range steps {
			var ev vh.Event
			var err error
			switch st.Op {
			case "stale":
				ev, err = m.Exec(vh.Op{Op: "new", O: fmt.Sprintf("m%d", st.M), V: st.VPost})
				if err == nil && !sameJSON(ev.V, st.VPost) {
					fail(i, "the object could not be set to the model's value")
					break steps
				}
			case "encode":
				ev, err = m.Exec(vh.Op{Op: "encode", B: "b", O: fmt.Sprintf("m%d", st.M)})
				if err == nil {
					switch {
					case ev.Res != st.Res:
						fail(i, fmt.Sprintf("Encode(%s) returned %s, the model says %s", st.T, ev.Res, st.Res))
					case !sameJSON(ev.Post, st.Post):
						fail(i, fmt.Sprintf("after Encode(%s) the unread bytes differ from the model's (%d vs %d bytes)", st.T, len(ev.Post), len(st.Post)))
					case !sameJSON(ev.VPost, st.VPost):
						fail(i, fmt.Sprintf("after Encode(%s) the object differs from the model's", st.T))
					}
				}
			case "decode":
				if st.Kept {
					ev, err = m.Exec(vh.Op{Op: "decode", B: "b", O: "r_" + st.T, T: st.T})
				} else {
					ev, err = m.Exec(vh.Op{Op: "decode", B: "b", O: "r", T: st.T, Fresh: true})
				}
				if err == nil {
					switch {
					case ev.Res != st.Res:
						fail(i, fmt.Sprintf("Decode(%s) returned %s, the model says %s", st.T, ev.Res, st.Res))
					case !sameJSON(ev.Post, st.Post):
						fail(i, fmt.Sprintf("Decode(%s) left %d unread bytes, the model says %d", st.T, len(ev.Post), len(st.Post)))
					case !sameJSON(ev.VPost, st.VPost):
						fail(i, fmt.Sprintf("Decode(%s) produced a message that differs from the model's", st.T))
					}
				}
			case "refused":
				// a decode the model refuses: whatever the code answers is not judged (its acceptance of other inputs is not
				// pinned); the caller drops the buffer and keeps the receiver
				if _, err = m.Exec(vh.Op{Op: "decode", B: "b", O: "r_" + st.T, T: st.T}); err == nil {
					ev, err = m.Exec(vh.Op{Op: "reset", B: "b"})
				}
			case "next":
				ev, err = m.Exec(vh.Op{Op: "next", B: "b", K: st.K})
				if err == nil && !sameJSON(ev.Post, st.Post) {
					fail(i, "unread bytes differ after Next")
				}
			case "reset":
				ev, err = m.Exec(vh.Op{Op: "reset", B: "b"})
				if err == nil && !sameJSON(ev.Post, st.Post) {
					fail(i, "unread bytes differ after Reset")
				}
			case "regremove", "regrestore":
				ev, err = m.Exec(vh.Op{Op: st.Op, Alg: st.Alg})
			case "write":
				ev, err = m.Exec(vh.Op{Op: "write", B: "b", Bytes: st.Bytes})
				if err == nil && !sameJSON(ev.Post, st.Post) {
					fail(i, "unread bytes differ after Write")
				}
			default:
				err = fmt.Errorf("unknown step %q", st.Op)
			}
			if err != nil {
				return fmt.Errorf("behaviour %d step %d: %w", n, i, err)
			}
			if res.Verdict != "ok" {
				break
			}
		}
		// whatever the behaviour removed from the registry is put back before the next one
		for _, a := range []string{"CRC16", "CRC32", "SSE_BIN", "SZSE_BIN"} {
			m.Exec(vh.Op{Op: "regrestore", Alg: a})
		}
		if err := enc.Encode(res); err != nil {
			return err
		}
	}
	return sc.Err()
}
