//go:build verif

package main

import (
	"bufio"
	"bytes"
	"encoding/json"
	"flag"
	"fmt"
	"os"
	"runtime"
	"sort"
	"strconv"
	"sync"
	"sync/atomic"
	"time"

	"github.com/xinchentechnote/fin-proto-go/codec"
)

func goid() int64 {
	var buf [64]byte
	n := runtime.Stack(buf[:], false)
	// "goroutine 123 [running]:"
	f := bytes.Fields(buf[:n])
	id, _ := strconv.ParseInt(string(f[1]), 10, 64)
	return id
}

// ---- forced schedules (direction A) -----------------------------------------------------------------

type schedStep struct {
	A   string `json:"a"` // Call | Acquire | Finish
	P   string `json:"p"`
	Op  *regOp `json:"op,omitempty"`
	Res any    `json:"res,omitempty"` // expected result at Finish
}

type schedResult struct {
	N        int        `json:"n"`
	History  []regEvent `json:"history,omitempty"` // invocation/return events of the calls (for diverged / mismatching schedules)
	Verdict  string     `json:"verdict"`           // ok | diverged | mismatch | inconclusive
	Why      string     `json:"why"`
	Step     int        `json:"step"`
	Schedule any        `json:"schedule,omitempty"`
}

type gproc struct {
	atLocked int32
	gate     chan struct{}
	done     chan any
}

// concSched forces TLC's schedules on real goroutines. The ":locked" hook is the gate: a
// goroutine that reaches it holds the registry lock and waits there until the schedule says
// Finish. What is checked at every step:
//   - a goroutine the model says is blocked must NOT reach its critical section (checked after
//     a settle delay: a miss is possible, a false alarm is not),
//   - every Finish returns what the model computed.
//
// A goroutine that the model lets in but that does not arrive (e.g. a stricter lock) makes the
// schedule inconclusive, never a violation.
func concSched(args []string) error {
	fs := flag.NewFlagSet("sched", flag.ExitOnError)
	in := fs.String("in", "", "schedules (ndjson: one array of steps per line)")
	out := fs.String("out", "", "results (ndjson)")
	settle := fs.Duration("settle", 3*time.Millisecond, "how long a blocked goroutine is watched")
	fs.Parse(args)
	fin, err := os.Open(*in)
	if err != nil {
		return err
	}
	defer fin.Close()
	fout, err := os.Create(*out)
	if err != nil {
		return err
	}
	defer fout.Close()
	w := bufio.NewWriter(fout)
	defer w.Flush()
	enc := json.NewEncoder(w)
	pool := newPool(regNames, 2)

	var mu sync.Mutex
	byGoroutine := map[int64]*gproc{}
	codec.VerifHook = func(point, name string) {
		if len(point) < 7 || point[len(point)-7:] != ":locked" {
			return
		}
		mu.Lock()
		g := byGoroutine[goid()]
		mu.Unlock()
		if g == nil {
			return
		}
		atomic.StoreInt32(&g.atLocked, 1)
		<-g.gate
	}
	sc := bufio.NewScanner(fin)
	sc.Buffer(make([]byte, 1<<20), 1<<26)
	n := 0
	var clock int64
	for sc.Scan() {
		n++
		var hmu sync.Mutex
		hist := []regEvent{{H: n, E: "reset", Op: regOp{Svc: []any{}}, Res: []any{}}}
		pnum := map[string]int{}
		var steps []schedStep
		if err := json.Unmarshal(sc.Bytes(), &steps); err != nil {
			return err
		}
		codec.Clear()
		procs := map[string]*gproc{}
		res := schedResult{N: n, Verdict: "ok"}
		waitArrive := func(g *gproc, d time.Duration) bool {
			deadline := time.Now().Add(d)
			for time.Now().Before(deadline) {
				if atomic.LoadInt32(&g.atLocked) == 1 {
					return true
				}
				time.Sleep(50 * time.Microsecond)
			}
			return atomic.LoadInt32(&g.atLocked) == 1
		}
		abort := func() {
			// let everything run to completion so that the next schedule starts clean
			for _, g := range procs {
				select {
				case <-g.gate:
				default:
					close(g.gate)
				}
			}
			for _, g := range procs {
				select {
				case <-g.done:
				case <-time.After(2 * time.Second):
				}
			}
		}
	steps:
		for i, st := range steps {
			switch st.A {
			case "Call":
				g := &gproc{gate: make(chan struct{}), done: make(chan any, 1)}
				procs[st.P] = g
				ready := make(chan struct{})
				op := *st.Op
				if op.Svc == nil {
					op.Svc = []any{}
				}
				pn := len(pnum) + 1
				if v, ok := pnum[st.P]; ok {
					pn = v
				}
				pnum[st.P] = pn
				go func() {
					mu.Lock()
					byGoroutine[goid()] = g
					mu.Unlock()
					close(ready)
					s0 := atomic.AddInt64(&clock, 1)
					r := doOp(pool, op)
					s1 := atomic.AddInt64(&clock, 1)
					hmu.Lock()
					hist = append(hist, regEvent{H: n, E: "inv", P: pn, Op: op, Res: []any{}, Stamp: s0}, regEvent{H: n, E: "ret", P: pn, Op: op, Res: r, Stamp: s1})
					hmu.Unlock()
					mu.Lock()
					delete(byGoroutine, goid())
					mu.Unlock()
					g.done <- r
				}()
				<-ready
				// is the next step this goroutine's Acquire? otherwise the model says it is blocked
				if i+1 < len(steps) && steps[i+1].A == "Acquire" && steps[i+1].P == st.P {
					continue
				}
				if waitArrive(g, *settle) {
					res = schedResult{N: n, Verdict: "diverged", Step: i, Schedule: steps,
						Why: fmt.Sprintf("%s (%s) reached its critical section while the model says the lock is held against it", st.P, op.Kind)}
					abort()
					break steps
				}
			case "Acquire":
				g := procs[st.P]
				// a call may complete without passing the gate (a path of the code that never
				// reaches the ":locked" hook): its result is then compared at its Finish step
				arrivedOrDone := func() bool {
					deadline := time.Now().Add(time.Second)
					for time.Now().Before(deadline) {
						if atomic.LoadInt32(&g.atLocked) == 1 || len(g.done) == 1 {
							return true
						}
						time.Sleep(50 * time.Microsecond)
					}
					return false
				}
				if !arrivedOrDone() {
					res = schedResult{N: n, Verdict: "inconclusive", Step: i, Why: st.P + " did not reach its critical section although the model lets it in"}
					abort()
					break steps
				}
			case "Finish":
				g := procs[st.P]
				if atomic.LoadInt32(&g.atLocked) != 1 && len(g.done) == 0 {
					res = schedResult{N: n, Verdict: "inconclusive", Step: i, Why: st.P + " is not at its gate"}
					abort()
					break steps
				}
				close(g.gate)
				var got any
				select {
				case got = <-g.done:
				case <-time.After(2 * time.Second):
					res = schedResult{N: n, Verdict: "inconclusive", Step: i, Why: st.P + " did not return"}
					abort()
					break steps
				}
				a, _ := json.Marshal(got)
				b, _ := json.Marshal(st.Res)
				if string(a) != string(b) {
					res = schedResult{N: n, Verdict: "mismatch", Step: i, Schedule: steps,
						Why: fmt.Sprintf("%s returned %s, the model says %s", st.P, a, b)}
					abort()
					break steps
				}
				delete(procs, st.P)
			}
		}
		if res.Verdict == "ok" && len(procs) > 0 {
			abort()
		}
		if res.Verdict == "diverged" || res.Verdict == "mismatch" {
			hmu.Lock()
			sort.Slice(hist, func(i, j int) bool { return hist[i].Stamp < hist[j].Stamp })
			res.History = append([]regEvent{}, hist...)
			hmu.Unlock()
		}
		enc.Encode(res)
	}
	return sc.Err()
}
