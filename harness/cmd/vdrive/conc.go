package main

import (
	"bufio"
	"encoding/json"
	"flag"
	"fmt"
	"math/rand"
	"os"
	"runtime"
	"sync"
	"sync/atomic"

	"github.com/xinchentechnote/fin-proto-go/codec"
)

// ---- C19: the checksum-service registry under concurrency ---------------------------------------

type testSvc struct {
	name string
	id   int
}

func (s *testSvc) Algorithm() string { return s.name }

type regOp struct {
	Kind string `json:"kind"` // Registry | Get | Remove | Clear
	Name string `json:"name"` // Get, Remove
	Svc  []any  `json:"svc"`  // Registry: [name, id]
}

var regNames = []string{"A", "B", "C", "D"}

// the service instances of a run: (name, id) -> pointer, so that identity can be logged
type svcPool struct {
	byKey map[string]*testSvc
	byPtr map[*testSvc][]any
}

func newPool(names []string, perName int) *svcPool {
	p := &svcPool{byKey: map[string]*testSvc{}, byPtr: map[*testSvc][]any{}}
	for _, n := range names {
		for i := 1; i <= perName; i++ {
			s := &testSvc{name: n, id: i}
			p.byKey[fmt.Sprintf("%s/%d", n, i)] = s
			p.byPtr[s] = []any{n, i}
		}
	}
	return p
}

func (p *svcPool) get(svc []any) *testSvc {
	return p.byKey[fmt.Sprintf("%v/%v", svc[0], toInt(svc[1]))]
}

func toInt(x any) int {
	switch v := x.(type) {
	case float64:
		return int(v)
	case int:
		return v
	}
	return 0
}

// doOp performs one registry call on the real library and returns the logged result, always a
// list: Registry -> ["T"] / ["F"]; Get -> [name, id] of the returned instance (its Algorithm()
// and identity) or [] when absent; Remove/Clear -> ["done"]. A look-up returning something that
// is not one of our instances is logged as ["?", 0] (no sequential map explains that).
func doOp(pool *svcPool, o regOp) any {
	switch o.Kind {
	case "Registry":
		if codec.Registry(pool.get(o.Svc)) {
			return []any{"T"}
		}
		return []any{"F"}
	case "Get":
		v, ok := codec.Get(o.Name)
		if !ok {
			if v != nil {
				return []any{"?", -1}
			}
			return []any{}
		}
		s, isSvc := v.(*testSvc)
		if !isSvc {
			return []any{"?", 0}
		}
		id, known := pool.byPtr[s]
		if !known {
			return []any{"?", 0}
		}
		return []any{s.Algorithm(), id[1]} // Algorithm() is called: a half-built service would show
	case "Remove":
		codec.Remove(o.Name)
		return []any{"done"}
	case "Clear":
		codec.Clear()
		return []any{"done"}
	}
	panic("bad op " + o.Kind)
}

type regEvent struct {
	H     int    `json:"h"`
	E     string `json:"e"` // inv | ret | reset
	P     int    `json:"p"`
	Op    regOp  `json:"op"`
	Res   any    `json:"res"`
	Stamp int64  `json:"stamp"`
}

func randOp(r *rand.Rand, names []string, perName int) regOp {
	switch c := r.Intn(10); {
	case c < 4:
		return regOp{Kind: "Registry", Svc: []any{names[r.Intn(len(names))], 1 + r.Intn(perName)}}
	case c < 7:
		return regOp{Kind: "Get", Name: names[r.Intn(len(names))], Svc: []any{}}
	case c < 9:
		return regOp{Kind: "Remove", Name: names[r.Intn(len(names))], Svc: []any{}}
	}
	return regOp{Kind: "Clear", Svc: []any{}}
}

// walkPerm: the order in which goroutine p of history h looks the names up during the Clear burst
func walkPerm(h, p, n int) []int {
	return rand.New(rand.NewSource(int64(h*131 + p))).Perm(n)
}

// stress: hook-free concurrent histories; call and return are stamped with one atomic counter
// (never wall-clock). Built with -race by the orchestrator.
func concStress(args []string) error {
	fs := flag.NewFlagSet("stress", flag.ExitOnError)
	seed := fs.Int64("seed", 1, "seed")
	hists := fs.Int("histories", 100, "number of histories")
	procs := fs.Int("procs", 4, "goroutines per history")
	calls := fs.Int("calls", 4, "calls per goroutine")
	nnames := fs.Int("names", 2, "distinct algorithm names")
	out := fs.String("out", "", "output (ndjson)")
	profile := fs.String("profile", "random", "random | hot (one goroutine registers / removes ONE name in turn, all others look it up)")
	fs.Parse(args)
	f, err := os.Create(*out)
	if err != nil {
		return err
	}
	defer f.Close()
	w := bufio.NewWriterSize(f, 1<<20)
	defer w.Flush()
	enc := json.NewEncoder(w)
	r := rand.New(rand.NewSource(*seed))
	names := regNames[:*nnames]
	pool := newPool(names, 2)
	var clock int64
	for h := 1; h <= *hists; h++ {
		codec.Clear()
		enc.Encode(regEvent{H: h, E: "reset", Op: regOp{Svc: []any{}}, Res: []any{}})
		plans := make([][]regOp, *procs)
		for p := range plans {
			for c := 0; c < *calls; c++ {
				switch {
				case *profile == "clearhot":
					// one name, no Remove at all: the writer registers instance 1, clears, registers instance 2, clears ...; all others look the name up
					switch {
					case p == 0 && c%2 == 0:
						plans[p] = append(plans[p], regOp{Kind: "Registry", Svc: []any{names[0], 1 + (c/2)%2}})
					case p == 0:
						plans[p] = append(plans[p], regOp{Kind: "Clear", Svc: []any{}})
					default:
						plans[p] = append(plans[p], regOp{Kind: "Get", Name: names[0], Svc: []any{}})
					}
				case *profile == "walk":
					// all names registered, then ONE Clear while every other goroutine looks all names up in a burst (its own order, no
					// alignment inside the burst): a Clear that is not atomic over the names shows as a miss followed by a hit
					nn := len(names)
					switch {
					case p == 0 && c < nn:
						plans[p] = append(plans[p], regOp{Kind: "Registry", Svc: []any{names[c], 1}})
					case p == 0 && c == nn:
						plans[p] = append(plans[p], regOp{Kind: "Clear", Svc: []any{}})
					case c < nn:
						plans[p] = append(plans[p], regOp{Kind: "Get", Name: names[(c+p)%nn], Svc: []any{}})
					default:
						plans[p] = append(plans[p], regOp{Kind: "Get", Name: names[walkPerm(h, p, nn)[(c-nn)%nn]], Svc: []any{}})
					}
				case *profile != "hot":
					plans[p] = append(plans[p], randOp(r, names, 2))
				case p == 0 && c%2 == 0: // the writer: register instance 1, remove, register instance 2, remove ...
					plans[p] = append(plans[p], regOp{Kind: "Registry", Svc: []any{names[0], 1 + (c/2)%2}})
				case p == 0:
					if r.Intn(4) == 0 {
						plans[p] = append(plans[p], regOp{Kind: "Clear", Svc: []any{}})
					} else {
						plans[p] = append(plans[p], regOp{Kind: "Remove", Name: names[0], Svc: []any{}})
					}
				default:
					plans[p] = append(plans[p], regOp{Kind: "Get", Name: names[0], Svc: []any{}})
				}
			}
		}
		logs := make([][]regEvent, *procs)
		arrived := make([]int64, *calls)
		var wg sync.WaitGroup
		start := make(chan struct{})
		for p := 0; p < *procs; p++ {
			wg.Add(1)
			go func(p int) {
				defer wg.Done()
				<-start
				for c, o := range plans[p] {
					// align the goroutines at the start of every round so that the calls really overlap
					atomic.AddInt64(&arrived[c], 1)
					for spin := 0; (*profile != "walk" || c <= len(names)) && atomic.LoadInt64(&arrived[c]) < int64(*procs) && spin < 200000; spin++ {
						if spin%64 == 63 {
							runtime.Gosched()
						}
					}
					s0 := atomic.AddInt64(&clock, 1)
					res := doOp(pool, o)
					s1 := atomic.AddInt64(&clock, 1)
					logs[p] = append(logs[p], regEvent{H: h, E: "inv", P: p + 1, Op: o, Res: []any{}, Stamp: s0},
						regEvent{H: h, E: "ret", P: p + 1, Op: o, Res: res, Stamp: s1})
				}
			}(p)
		}
		close(start)
		wg.Wait()
		// merge by stamp
		idx := make([]int, *procs)
		for {
			best := -1
			for p := range logs {
				if idx[p] < len(logs[p]) && (best < 0 || logs[p][idx[p]].Stamp < logs[best][idx[best]].Stamp) {
					best = p
				}
			}
			if best < 0 {
				break
			}
			enc.Encode(logs[best][idx[best]])
			idx[best]++
		}
	}
	return nil
}
