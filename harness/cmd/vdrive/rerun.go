package main

import (
	"bufio"
	"encoding/json"
	"flag"
	"fmt"
	"os"

	"vharness/vh"
)

// rerun: re-execute the history of a replay file (recorded events) on the current tree and
// write the fresh events, which the trace specification then judges again.
func rerun(args []string) error {
	fs := flag.NewFlagSet("rerun", flag.ExitOnError)
	in := fs.String("in", "", "replay file (json with an events array)")
	out := fs.String("out", "", "output trace (ndjson)")
	fs.Parse(args)
	data, err := os.ReadFile(*in)
	if err != nil {
		return err
	}
	var rp struct {
		Events []map[string]any `json:"events"`
	}
	if err := json.Unmarshal(data, &rp); err != nil {
		return err
	}
	f, err := os.Create(*out)
	if err != nil {
		return err
	}
	defer f.Close()
	w := bufio.NewWriter(f)
	defer w.Flush()
	rec := vh.NewRecorder(w)
	m := vh.NewMachine()
	m.Hist = 1
	for _, e := range rp.Events {
		op, err := vh.OpOfEvent(e)
		if err != nil {
			return err
		}
		ev, err := m.Exec(op)
		if err != nil {
			return fmt.Errorf("rerun op %s: %w", op.Op, err)
		}
		if err := rec.Emit(ev); err != nil {
			return err
		}
	}
	return nil
}
