// vdrive: recorder, replayer and drivers of the conformance harness.
//
//	vdrive record  -driver <name> -seed S -n N -out trace.ndjson [-stats stats.json]
//	vdrive replay  -in behaviours.ndjson -out result.json
//	vdrive selftest
package main

import (
	"bufio"
	"encoding/json"
	"flag"
	"fmt"
	"os"
	"sort"

	"vharness/vh"
)

func main() {
	if len(os.Args) < 2 {
		fmt.Fprintln(os.Stderr, "usage: vdrive record|replay|selftest ...")
		os.Exit(2)
	}
	if err := vh.LoadSchema(); err != nil {
		fmt.Fprintln(os.Stderr, "vdrive: schema:", err)
		os.Exit(2)
	}
	var err error
	switch os.Args[1] {
	case "record":
		err = record(os.Args[2:])
	case "replay":
		err = replay(os.Args[2:])
	case "replay-prims":
		err = replayPrims(os.Args[2:])
	case "rerun":
		err = rerun(os.Args[2:])
	case "selftest":
		err = selftest()
	case "values":
		err = values(os.Args[2:])
	case "gen":
		err = gen(os.Args[2:])
	case "child":
		err = child(os.Args[2:])
	case "conc":
		err = conc(os.Args[2:])
	default:
		err = fmt.Errorf("unknown command %q", os.Args[1])
	}
	if err != nil {
		fmt.Fprintln(os.Stderr, "vdrive:", err)
		os.Exit(2)
	}
}

type Stats struct {
	Driver     string         `json:"driver"`
	Seed       int64          `json:"seed"`
	Histories  int            `json:"histories"`
	Events     int            `json:"events"`
	Types      int            `json:"types"`
	Classes    int            `json:"classes"` // distinct (type, field, boundary-class) triples hit
	ClassHits  map[string]int `json:"-"`
	ResCounts  map[string]int `json:"res_counts"`
	OpCounts   map[string]int `json:"op_counts"`
	SampleEvts []vh.Event     `json:"samples"`
}

func record(args []string) error {
	fs := flag.NewFlagSet("record", flag.ExitOnError)
	driver := fs.String("driver", "", "driver name")
	seed := fs.Int64("seed", 1, "seed")
	n := fs.Int("n", 3, "size parameter (values per type, histories, ...)")
	out := fs.String("out", "", "output trace (ndjson)")
	statsPath := fs.String("stats", "", "stats output (json)")
	only := fs.String("types", "", "comma-separated type filter (optional)")
	small := fs.Bool("small", false, "no long lists/texts")
	poison := fs.Int("poison", 0, "poisoned mode (1: a refused call before every history; 2: also before every encode/decode)")
	fs.Parse(args)
	d, ok := vh.Drivers[*driver]
	if !ok {
		names := []string{}
		for k := range vh.Drivers {
			names = append(names, k)
		}
		sort.Strings(names)
		return fmt.Errorf("unknown driver %q (have %v)", *driver, names)
	}
	f, err := os.Create(*out)
	if err != nil {
		return err
	}
	defer f.Close()
	w := bufio.NewWriterSize(f, 1<<20)
	defer w.Flush()
	rec := vh.NewRecorder(w)
	g := vh.NewGen(*seed)
	g.Small = *small
	st := &Stats{Driver: *driver, Seed: *seed, ResCounts: map[string]int{}, OpCounts: map[string]int{}}
	types := map[string]bool{}
	ctx := &vh.DriverCtx{G: g, N: *n, TypeFilter: vh.ParseFilter(*only)}
	ctx.Run = func(ops []vh.Op) error {
		vh.HistoryBoundary()
		m := vh.NewMachine()
		st.Histories++
		m.Hist = st.Histories
		m.NextID = st.Events
		for _, op := range ops {
			ev, err := m.Exec(op)
			if err != nil {
				return fmt.Errorf("history %d op %+v: %w", st.Histories, op.Op, err)
			}
			st.Events++
			st.ResCounts[ev.Op+":"+ev.Res]++
			st.OpCounts[ev.Op]++
			if ev.T != "" {
				types[ev.T] = true
			}
			if len(st.SampleEvts) < 3 && (ev.Op == "encode" || ev.Op == "decode" || ev.Op == "prim" || ev.Op == "calc") {
				st.SampleEvts = append(st.SampleEvts, ev)
			}
			if k := classKey(ev); k != "" {
				g.Classes[k]++
			}
			if err := rec.Emit(ev); err != nil {
				return err
			}
		}
		return nil
	}
	ctx.EnablePoison(*poison, *seed)
	if err := d(ctx); err != nil {
		return err
	}
	st.Types = len(types)
	st.Classes = len(g.Classes)
	if *statsPath != "" {
		data, _ := json.MarshalIndent(st, "", " ")
		if err := os.WriteFile(*statsPath, data, 0o644); err != nil {
			return err
		}
	}
	return nil
}

func selftest() error {
	// dump -> build -> dump must be the identity on generated values of every type
	g := vh.NewGen(7)
	n := 0
	for _, t := range vh.TypeNames() {
		for _, mode := range []vh.Mode{vh.Canon, vh.Wild} {
			for i := 0; i < 5; i++ {
				v := g.Value(t, mode)
				obj, err := vh.Build(v)
				if err != nil {
					return fmt.Errorf("selftest build %s: %w", t, err)
				}
				d1, _ := json.Marshal(vh.Dump(obj))
				var tree any
				json.Unmarshal(d1, &tree)
				obj2, err := vh.Build(tree)
				if err != nil {
					return fmt.Errorf("selftest rebuild %s: %w", t, err)
				}
				d2, _ := json.Marshal(vh.Dump(obj2))
				if string(d1) != string(d2) {
					return fmt.Errorf("selftest: dump/build/dump differs for %s:\n%s\n%s", t, d1, d2)
				}
				d0, _ := json.Marshal(v)
				var t0, t1 any
				json.Unmarshal(d0, &t0)
				json.Unmarshal(d1, &t1)
				a, _ := json.Marshal(t0)
				b, _ := json.Marshal(t1)
				if string(a) != string(b) {
					return fmt.Errorf("selftest: generated tree and dump differ for %s:\n%s\n%s", t, a, b)
				}
				n++
			}
		}
	}
	fmt.Printf("selftest ok: %d values over %d types\n", n, len(vh.TypeNames()))
	return nil
}

func lenClass(n int) string {
	switch {
	case n == 0:
		return "0"
	case n == 1:
		return "1"
	case n < 255:
		return "<255"
	case n <= 257:
		return fmt.Sprint(n)
	case n < 65535:
		return "<65535"
	case n <= 65537:
		return fmt.Sprint(n)
	}
	return "big"
}

// classKey: the boundary class of a primitive / checksum event (for the distinct_nontrivial count)
func classKey(ev vh.Event) string {
	switch ev.Op {
	case "prim":
		a, _ := ev.Args.(map[string]any)
		n := 0
		for _, k := range []string{"vals", "s", "objs"} {
			if l, ok := a[k].([]any); ok && len(l) > n {
				n = len(l)
			}
			if l, ok := a[k].([]int); ok && len(l) > n {
				n = len(l)
			}
		}
		if c, ok := a["count"].(int); ok && c > n {
			n = c
		}
		return fmt.Sprintf("prim/%s/pw=%v/pw2=%v/le=%v/ek=%v/n=%v/pad=%v/left=%v/len=%s/%s", ev.Fn, a["pw"], a["pw2"], a["le"], a["ek"], a["n"], a["pad"], a["left"], lenClass(n), ev.Res)
	case "calc":
		return fmt.Sprintf("calc/%s/len=%s/big=%v", ev.Alg, lenClass(ev.InLen), ev.Big)
	}
	return ""
}
