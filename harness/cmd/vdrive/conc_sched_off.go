//go:build !verif

package main

import "fmt"

func concSched(args []string) error { return fmt.Errorf("sched needs the build tag verif") }
