package main

import (
	"sort"
	"bufio"
	"encoding/json"
	"flag"
	"fmt"
	"os"
	"syscall"
	"time"

	"vharness/vh"
)

// gen: run a driver but only WRITE its histories (one JSON array of ops per line).
func gen(args []string) error {
	fs := flag.NewFlagSet("gen", flag.ExitOnError)
	driver := fs.String("driver", "", "driver name")
	seed := fs.Int64("seed", 1, "seed")
	n := fs.Int("n", 3, "size parameter")
	out := fs.String("out", "", "output histories (ndjson)")
	only := fs.String("types", "", "type filter")
	poison := fs.Int("poison", 0, "poisoned mode (see record)")
	small := fs.Bool("small", false, "no long lists/texts")
	fs.Parse(args)
	d, ok := vh.Drivers[*driver]
	if !ok {
		return fmt.Errorf("unknown driver %q", *driver)
	}
	f, err := os.Create(*out)
	if err != nil {
		return err
	}
	defer f.Close()
	w := bufio.NewWriterSize(f, 1<<20)
	defer w.Flush()
	enc := json.NewEncoder(w)
	g := vh.NewGen(*seed)
	ctx := &vh.DriverCtx{G: g, N: *n, TypeFilter: vh.ParseFilter(*only)}
	g.Small = *small
	ctx.Run = func(ops []vh.Op) error { return enc.Encode(ops) }
	ctx.EnablePoison(*poison, *seed)
	return d(ctx)
}

// child: execute histories under sensors. Meant to run under `ulimit -v`: if the process
// dies (Go's "fatal error: out of memory" cannot be recovered) the parent reads
// <out>.progress to learn which history killed it, logs an "abort" event for it and restarts
// the child after it. A watchdog turns a call that does not return into a "hang" event.
func child(args []string) error {
	fs := flag.NewFlagSet("child", flag.ExitOnError)
	in := fs.String("in", "", "histories (ndjson, one array of ops per line)")
	out := fs.String("out", "", "events (ndjson, appended)")
	start := fs.Int("start", 0, "index of the first history to run")
	idbase := fs.Int("idbase", 0, "first event id - 1")
	fs.Parse(args)
	fin, err := os.Open(*in)
	if err != nil {
		return err
	}
	defer fin.Close()
	fout, err := os.OpenFile(*out, os.O_APPEND|os.O_CREATE|os.O_WRONLY, 0o644)
	if err != nil {
		return err
	}
	defer fout.Close()
	sc := bufio.NewScanner(fin)
	sc.Buffer(make([]byte, 1<<20), 1<<28)
	idx := -1
	nextID := *idbase
	for sc.Scan() {
		idx++
		if idx < *start {
			continue
		}
		var ops []vh.Op
		if err := json.Unmarshal(sc.Bytes(), &ops); err != nil {
			return fmt.Errorf("history %d: %w", idx, err)
		}
		if err := os.WriteFile(*out+".progress", []byte(fmt.Sprintf("%d %d", idx, nextID)), 0o644); err != nil {
			return err
		}
		m := vh.NewMachine()
		m.Hist = idx + 1
		m.NextID = nextID
		var evs []vh.Event
		inlen := 0
		for _, op := range ops {
			if len(op.Bytes) > inlen {
				inlen = len(op.Bytes)
			}
			type res struct {
				ev  vh.Event
				err error
			}
			ch := make(chan res, 1)
			go func() {
				ev, err := m.Exec(op)
				ch <- res{ev, err}
			}()
			// A call "hangs" when it has not returned after the limit measured in CPU time of this
			// process (a loop that does not end burns CPU; a process starved by other load does not),
			// or after a generous wall-clock bound (a call that blocks for ever).
			limit := 2*time.Second + time.Duration(inlen)*time.Microsecond
			cpu0, wall0 := cpuTime(), time.Now()
			done := false
			for !done {
				select {
				case r := <-ch:
					if r.err != nil {
						return fmt.Errorf("history %d op %s: %w", idx, op.Op, r.err)
					}
					evs = append(evs, r.ev)
					done = true
				case <-time.After(200 * time.Millisecond):
					if cpuTime()-cpu0 > limit || time.Since(wall0) > 30*limit {
						// the call did not return: log what we have, mark the hang, give up this process
						flush(fout, evs)
						os.WriteFile(*out+".hang", []byte(fmt.Sprintf("%d %d %s", idx, m.NextID+1, op.Op)), 0o644)
						os.Exit(3)
					}
				}
			}
		}
		nextID = m.NextID
		if err := flush(fout, evs); err != nil {
			return err
		}
	}
	os.Remove(*out + ".progress")
	return sc.Err()
}

// cpuTime: user+system CPU time consumed by this process so far.
func cpuTime() time.Duration {
	var ru syscall.Rusage
	if err := syscall.Getrusage(syscall.RUSAGE_SELF, &ru); err != nil {
		return 0
	}
	return time.Duration(ru.Utime.Nano() + ru.Stime.Nano())
}

func flush(f *os.File, evs []vh.Event) error {
	w := bufio.NewWriter(f)
	rec := vh.NewRecorder(w)
	for _, ev := range evs {
		if err := rec.Emit(ev); err != nil {
			return err
		}
	}
	return w.Flush()
}

// values: sample values of every type, one {"t":..,"v":..} per line, for the specification to
// derive hostile inputs from.
func values(args []string) error {
	fs := flag.NewFlagSet("values", flag.ExitOnError)
	seed := fs.Int64("seed", 1, "seed")
	n := fs.Int("n", 1, "values per type")
	out := fs.String("out", "", "output (ndjson)")
	only := fs.String("types", "", "type filter")
	wm := fs.Bool("wm", false, "the message universe of the WireMachine model: every frame type with a small body and without a body, plus a plain message")
	wmrcv := fs.Bool("wmrcv", false, "the message universe of the WireMachine receiver configurations: one frame type with three different registered bodies (and without a body), one extension owner with two application ids")
	fs.Parse(args)
	f, err := os.Create(*out)
	if err != nil {
		return err
	}
	defer f.Close()
	w := bufio.NewWriter(f)
	defer w.Flush()
	enc := json.NewEncoder(w)
	g := vh.NewGen(*seed)
	g.Small = true
	g.MaxList = 1
	if *wmrcv {
		emit := func(t string, v map[string]any) error {
			obj, err := vh.Build(v)
			if err != nil {
				return err
			}
			return enc.Encode(map[string]any{"t": t, "v": vh.Dump(obj)})
		}
		// k entries of a table, the smallest body types of a seed-dependent window, with distinct keys
		pick := func(tab vh.Table, k int) []vh.TableEntry {
			n := len(tab.Entries)
			win := []vh.TableEntry{}
			for i := 0; i < n && i < 8; i++ {
				win = append(win, tab.Entries[(int(*seed)*3+i)%n])
			}
			sort.SliceStable(win, func(a, b int) bool {
				return len(vh.S.Types[win[a].Type].Fields) < len(vh.S.Types[win[b].Type].Fields)
			})
			if len(win) > k {
				win = win[:k]
			}
			return win
		}
		frames := vh.Frames()
		ft := frames[int(*seed)%len(frames)]
		bf := vh.BodyField(ft)
		tab := vh.S.Tables[bf.Table]
		for _, e := range pick(tab, 3) {
			v := g.Value(ft, vh.Canon)
			v[tab.KeyField] = e.Key
			v[bf.Name] = g.Value(e.Type, vh.Canon)
			if err := emit(ft, v); err != nil {
				return err
			}
		}
		if bf.Nil == "skip" {
			v2 := g.Value(ft, vh.Canon)
			v2[bf.Name] = map[string]any{"_t": "nil"}
			if err := emit(ft, v2); err != nil {
				return err
			}
		}
		var owners []string
		for _, xt := range vh.TableNames() {
			if !vh.IsFrame(vh.S.Tables[xt].Owner) && len(vh.S.Tables[xt].Entries) >= 2 {
				owners = append(owners, xt)
			}
		}
		if len(owners) > 0 {
			xtab := vh.S.Tables[owners[int(*seed)%len(owners)]]
			for _, e := range pick(xtab, 2) {
				v := g.Value(xtab.Owner, vh.Canon)
				v[xtab.KeyField] = e.Key
				v[vh.BodyField(xtab.Owner).Name] = g.Value(e.Type, vh.Canon)
				if err := emit(xtab.Owner, v); err != nil {
					return err
				}
			}
		}
		return nil
	}
	if *wm {
		emit := func(t string, v map[string]any) error {
			obj, err := vh.Build(v)
			if err != nil {
				return err
			}
			return enc.Encode(map[string]any{"t": t, "v": vh.Dump(obj)})
		}
		for _, ft := range vh.Frames() {
			bf := vh.BodyField(ft)
			tab := vh.S.Tables[bf.Table]
			// the registered body with the fewest fields, chosen among a seed-dependent window
			best := tab.Entries[int(*seed)%len(tab.Entries)]
			for k := 0; k < 4; k++ {
				e := tab.Entries[(int(*seed)+k)%len(tab.Entries)]
				if len(vh.S.Types[e.Type].Fields) < len(vh.S.Types[best.Type].Fields) {
					best = e
				}
			}
			v := g.Value(ft, vh.Canon)
			v[tab.KeyField] = best.Key
			v[bf.Name] = g.Value(best.Type, vh.Canon)
			if err := emit(ft, v); err != nil {
				return err
			}
			if bf.Nil == "skip" {
				v2 := g.Value(ft, vh.Canon)
				v2[bf.Name] = map[string]any{"_t": "nil"}
				if err := emit(ft, v2); err != nil {
					return err
				}
			}
		}
		// a frame whose body is REFUSED after it wrote something: an extension owner with the extension left out
		// and an unregistered key (the frame encoders' error path is part of every history the model explores)
		var cands [][2]string // (extension table, frame table) pairs
		for _, xt := range vh.TableNames() {
			xtab := vh.S.Tables[xt]
			if vh.IsFrame(xtab.Owner) {
				continue
			}
			for _, ft := range vh.TableNames() {
				ftab := vh.S.Tables[ft]
				if !vh.IsFrame(ftab.Owner) {
					continue
				}
				hasLen := false // a frame that computes its own length (the frame encoders with several steps)
				for _, f := range vh.S.Types[ftab.Owner].Fields {
					if f.Kind == "len" {
						hasLen = true
					}
				}
				for _, e := range ftab.Entries {
					if e.Type == xtab.Owner && hasLen {
						cands = append(cands, [2]string{xt, ft})
					}
				}
			}
		}
		if len(cands) > 0 {
			c := cands[int(*seed)%len(cands)]
			xtab, ftab := vh.S.Tables[c[0]], vh.S.Tables[c[1]]
			body := g.Value(xtab.Owner, vh.Canon)
			body[xtab.KeyField] = []int{'9', 'Z', '9'}
			body[vh.BodyField(xtab.Owner).Name] = map[string]any{"_t": "nil"}
			fv := g.Value(ftab.Owner, vh.Canon)
			for _, e := range ftab.Entries {
				if e.Type == xtab.Owner {
					fv[ftab.KeyField] = e.Key
				}
			}
			fv[vh.BodyField(ftab.Owner).Name] = body
			if err := emit(ftab.Owner, fv); err != nil {
				return err
			}
		}
		return emit("sample.SubPacket", g.Value("sample.SubPacket", vh.Canon))
	}
	filter := vh.ParseFilter(*only)
	for _, t := range vh.TypeNames() {
		if filter != nil && !filter[t] {
			continue
		}
		for i := 0; i < *n; i++ {
			v := g.Value(t, vh.Canon)
			// through the real object and back, so that the tree has exactly the dump's shape
			obj, err := vh.Build(v)
			if err != nil {
				return err
			}
			if err := enc.Encode(map[string]any{"t": t, "v": vh.Dump(obj)}); err != nil {
				return err
			}
		}
	}
	return nil
}
