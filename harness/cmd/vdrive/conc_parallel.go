package main

import (
	"bufio"
	"encoding/json"
	"flag"
	"fmt"
	"os"
	"reflect"
	"strings"
	"sync"
	"sync/atomic"

	"github.com/xinchentechnote/fin-proto-go/codec"
	"vharness/vh"
)

// parallel (C20): the same histories are run (1) alone, one after the other, and (2) by G
// goroutines at once, each on its own Machine (own message objects, own buffers), all
// protocols mixed, with concurrent registry look-ups and registrations on unrelated names.
// Output: first every solo event, then every parallel event with "twin" = index (1-based line
// number) of its solo counterpart. TLC checks the parallel events with the sequential trace
// specification and against their twins. Built with -race by the orchestrator.
func concParallel(args []string) error {
	fs := flag.NewFlagSet("parallel", flag.ExitOnError)
	in := fs.String("in", "", "histories (ndjson, one array of ops per line)")
	out := fs.String("out", "", "events (ndjson)")
	g := fs.Int("goroutines", 16, "goroutines")
	rounds := fs.Int("rounds", 1, "how many times the parallel phase is repeated")
	rereg := fs.Bool("rereg", false, "before every round the application registers again, with its pinned type, one key of every discriminator table (a start-up step: no goroutine is running); rounds whose events equal those of the first round are not written")
	hammer := fs.Int("hammer", 0, "after the rounds: every history is executed N times by ALL goroutines at the same time (own machines); only an execution whose events differ from the first parallel round's is written")
	fs.Parse(args)
	fin, err := os.Open(*in)
	if err != nil {
		return err
	}
	defer fin.Close()
	var hists [][]vh.Op
	sc := bufio.NewScanner(fin)
	sc.Buffer(make([]byte, 1<<20), 1<<28)
	for sc.Scan() {
		var ops []vh.Op
		if err := json.Unmarshal(sc.Bytes(), &ops); err != nil {
			return err
		}
		hists = append(hists, ops)
	}
	if err := sc.Err(); err != nil {
		return err
	}
	fout, err := os.Create(*out)
	if err != nil {
		return err
	}
	defer fout.Close()
	w := bufio.NewWriterSize(fout, 1<<20)
	defer w.Flush()
	enc := json.NewEncoder(w)
	enc.SetEscapeHTML(false)

	type tev struct {
		vh.Event
		Twin int `json:"twin"`
	}
	poisoned := false
	for _, ops := range hists {
		for _, op := range ops {
			if strings.HasPrefix(op.Tag, "poison:") {
				poisoned = true
			}
		}
	}
	if poisoned {
		vh.PoisonGC()
	}
	runHist := func(h int, ops []vh.Op) ([]vh.Event, error) {
		m := vh.NewMachine()
		m.Hist = h
		var evs []vh.Event
		for _, op := range ops {
			ev, err := m.Exec(op)
			if err != nil {
				return nil, fmt.Errorf("history %d op %s: %w", h, op.Op, err)
			}
			evs = append(evs, ev)
		}
		return evs, nil
	}
	// Phase 1: in parallel, with registry traffic on the side. It runs FIRST, in a fresh
	// process, so that first-use effects (lazily built tables, caches) happen under contention.
	parRounds := make([][][]vh.Event, 0, *rounds)
	sameAsFirst := func(a, b [][]vh.Event) bool {
		for i := range a {
			if len(a[i]) != len(b[i]) {
				return false
			}
			for j := range a[i] {
				x, y := a[i][j], b[i][j]
				x.ID, y.ID, x.H, y.H = 0, 0, 0, 0
				jx, _ := json.Marshal(x)
				jy, _ := json.Marshal(y)
				if string(jx) != string(jy) {
					return false
				}
			}
		}
		return true
	}
	for round := 0; round < *rounds; round++ {
		vh.HistoryBoundary()
		if *rereg {
			for _, tn := range vh.TableNames() {
				tab := vh.S.Tables[tn]
				e := tab.Entries[round%len(tab.Entries)]
				ctor := vh.Ctors[e.Type]
				vh.Registries[tn](e.Key, func() codec.BinaryCodec { return ctor().(codec.BinaryCodec) })
			}
		}
		results := make([][]vh.Event, len(hists))
		errs := make([]error, *g)
		var next int64 = -1
		var wg sync.WaitGroup
		stop := make(chan struct{})
		var side sync.WaitGroup
		for s := 0; s < 2; s++ {
			side.Add(1)
			go func(s int) {
				defer side.Done()
				svc := &testSvc{name: fmt.Sprintf("SIDE%d", s), id: 1}
				for {
					select {
					case <-stop:
						codec.Remove(svc.name)
						return
					default:
					}
					codec.Get("CRC32")
					codec.Registry(svc)
					codec.Get(svc.name)
					codec.Remove(svc.name)
				}
			}(s)
		}
		for k := 0; k < *g; k++ {
			wg.Add(1)
			go func(k int) {
				defer wg.Done()
				for {
					i := int(atomic.AddInt64(&next, 1))
					if i >= len(hists) {
						return
					}
					evs, err := runHist(len(hists)*(round+1)+i+1, hists[i])
					if err != nil {
						errs[k] = err
						return
					}
					results[i] = evs
				}
			}(k)
		}
		wg.Wait()
		close(stop)
		side.Wait()
		for _, e := range errs {
			if e != nil {
				return e
			}
		}
		if *rereg && round >= 2 && sameAsFirst(parRounds[0], results) {
			continue
		}
		parRounds = append(parRounds, results)
	}
	// Phase 1b (hammer): one history at a time, by all goroutines at once, N times each. Contention inside ONE primitive or
	// message type (a free list that runs dry, a try-lock that fails, a cache line shared by callers with different
	// parameters) needs several callers in the same few instructions; histories spread over a work queue rarely meet there.
	// Only executions that differ from the first round's are kept - they are written as a further round and judged like it.
	if *hammer > 0 && len(parRounds) > 0 {
		sameEvs := func(a, b []vh.Event) bool {
			if len(a) != len(b) {
				return false
			}
			for j := range a {
				x, y := a[j], b[j]
				if x.Res != y.Res || !reflect.DeepEqual(x.Post, y.Post) || !reflect.DeepEqual(x.VPost, y.VPost) || !reflect.DeepEqual(x.Ret, y.Ret) {
					return false
				}
			}
			return true
		}
		extra := make([][]vh.Event, len(hists))
		found := 0
		for i := range hists {
			ref := parRounds[0][i]
			var mu sync.Mutex
			var wg sync.WaitGroup
			start := make(chan struct{})
			for k := 0; k < *g; k++ {
				wg.Add(1)
				go func(k int) {
					defer wg.Done()
					<-start
					for n := 0; n < *hammer; n++ {
						evs, err := runHist(len(hists)*(*rounds+2)+i+1, hists[i])
						if err != nil {
							return
						}
						if !sameEvs(ref, evs) {
							mu.Lock()
							if extra[i] == nil {
								extra[i] = evs
								found++
							}
							mu.Unlock()
							return
						}
					}
				}(k)
			}
			close(start)
			wg.Wait()
			if found >= 8 {
				break
			}
		}
		if found > 0 {
			parRounds = append(parRounds, extra)
		}
	}
	// Phase 2: alone, one after the other. Written first, so that a parallel event can name its
	// twin by line number.
	// They are EXECUTED in reverse order (and written in order): whatever one history could leave behind
	// for another through hidden shared state then differs from the parallel phase, where the
	// histories are started in ascending order.
	solo := make([][]vh.Event, len(hists))
	for i := len(hists) - 1; i >= 0; i-- {
		vh.HistoryBoundary()
		evs, err := runHist(i+1, hists[i])
		if err != nil {
			return err
		}
		solo[i] = evs
	}
	line := 0
	soloStart := make([]int, len(hists))
	for i := range hists {
		evs := solo[i]
		soloStart[i] = line + 1
		for _, ev := range evs {
			line++
			ev.ID = line
			if err := enc.Encode(tev{Event: ev, Twin: 0}); err != nil {
				return err
			}
		}
	}
	for _, results := range parRounds {
		for i, evs := range results {
			for j, ev := range evs {
				line++
				ev.ID = line
				if err := enc.Encode(tev{Event: ev, Twin: soloStart[i] + j}); err != nil {
					return err
				}
			}
		}
	}
	return nil
}
