package main

import "fmt"

func conc(args []string) error {
	if len(args) == 0 {
		return fmt.Errorf("usage: vdrive conc stress|sched|parallel ...")
	}
	switch args[0] {
	case "stress":
		return concStress(args[1:])
	case "sched":
		return concSched(args[1:])
	case "parallel":
		return concParallel(args[1:])
	}
	return fmt.Errorf("unknown conc command %q", args[0])
}
