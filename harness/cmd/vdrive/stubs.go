package main

import "fmt"

func replay(args []string) error { return fmt.Errorf("replay: not built yet") }
func conc(args []string) error   { return fmt.Errorf("conc: not built yet") }
