package main

import (
	"bufio"
	"bytes"
	"encoding/json"
	"flag"
	"fmt"
	"os"

	"vharness/vh"
)

// replay-prims (direction A for C03/C13/C18): every case of the PrimMachine model - a writer
// call with the bytes the model appends (or its refusal) and the value the matching reader
// returns - is executed on the real primitives and compared.
type primCase struct {
	Fn    string         `json:"fn"`
	A     map[string]any `json:"a"`
	OK    bool           `json:"ok"`
	Bytes []int          `json:"bytes"`
	RFn   string         `json:"rfn"`
	Ret   any            `json:"ret"`
}

func replayPrims(args []string) error {
	fs := flag.NewFlagSet("replay-prims", flag.ExitOnError)
	in := fs.String("in", "", "cases (ndjson)")
	out := fs.String("out", "", "results (ndjson)")
	fs.Parse(args)
	fin, err := os.Open(*in)
	if err != nil {
		return err
	}
	defer fin.Close()
	fout, err := os.Create(*out)
	if err != nil {
		return err
	}
	defer fout.Close()
	w := bufio.NewWriter(fout)
	defer w.Flush()
	enc := json.NewEncoder(w)
	sc := bufio.NewScanner(fin)
	sc.Buffer(make([]byte, 1<<20), 1<<26)
	n := 0
	for sc.Scan() {
		n++
		var c primCase
		if err := json.Unmarshal(sc.Bytes(), &c); err != nil {
			return err
		}
		res := replayResult{N: n, Verdict: "ok"}
		fail := func(why string) {
			var raw any
			json.Unmarshal(sc.Bytes(), &raw)
			res = replayResult{N: n, Verdict: "violation", Why: why, Behaviour: raw}
		}
		// prior content that is already consumed: the primitive must only append
		buf := &bytes.Buffer{}
		buf.Write([]byte{9, 9, 9})
		buf.Next(3)
		m := vh.NewMachine()
		m.Bufs["b"] = buf
		ev, err := m.Exec(vh.Op{Op: "prim", B: "b", Fn: c.Fn, Args: c.A})
		if err != nil {
			return fmt.Errorf("case %d: %w", n, err)
		}
		switch {
		case c.OK && ev.Res != "ok":
			fail(fmt.Sprintf("%s returned %s (%s), the model appends %d bytes", c.Fn, ev.Res, ev.Err, len(c.Bytes)))
		case !c.OK && ev.Res != "err":
			fail(fmt.Sprintf("%s returned %s, the model refuses the call (length does not fit its prefix)", c.Fn, ev.Res))
		case c.OK && !sameJSON(ev.Post, c.Bytes):
			fail(fmt.Sprintf("%s appended bytes that differ from the model's", c.Fn))
		}
		if res.Verdict == "ok" && c.OK {
			ev2, err := m.Exec(vh.Op{Op: "prim", B: "b", Fn: c.RFn, Args: c.A})
			if err != nil {
				return fmt.Errorf("case %d: %w", n, err)
			}
			switch {
			case ev2.Res != "ok":
				fail(fmt.Sprintf("%s returned %s on what %s wrote", c.RFn, ev2.Res, c.Fn))
			case !sameJSON(ev2.Ret, c.Ret):
				fail(fmt.Sprintf("%s returned a value that differs from the model's", c.RFn))
			case len(ev2.Post) != 0:
				fail(fmt.Sprintf("%s left %d bytes unread", c.RFn, len(ev2.Post)))
			}
		}
		if err := enc.Encode(res); err != nil {
			return err
		}
	}
	return sc.Err()
}
