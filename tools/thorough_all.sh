#!/bin/bash
# every thorough check once on the unchanged tree (seed from $1, default 1)
s=${1:-1}
for i in $(seq -w 1 20); do
  p=C$i
  st=$(date +%s)
  VERIF_SEED=$s nice -n 8 bin/check $p --tier thorough > thorough_${s}_$p.log 2>&1
  rc=$?
  echo "thorough seed=$s $p rc=$rc secs=$(( $(date +%s)-st )) $(grep -cE '^(VIOLATION|KNOWN-FINDING|CHECK-BROKEN)' thorough_${s}_$p.log) $(tail -1 thorough_${s}_$p.log | cut -c1-150)"
done
