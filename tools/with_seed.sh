#!/bin/bash
# tools/with_seed.sh <seed-dir> <command...>   run a command with VERIF_REPO = a scratch worktree of /repo with the seed applied
sd=$(realpath "$1"); shift
wt=$(mktemp -d /tmp/wswt-XXXXXX); rmdir $wt
git -C /repo worktree add -q --detach $wt HEAD || exit 2
git -C $wt apply $sd/patch.diff || { git -C /repo worktree remove --force $wt; exit 2; }
VERIF_REPO=$wt VERIF_EVIDENCE_DIR=/tmp/seed-evidence VERIF_REPLAY_DIR=/tmp/seed-replays "$@"
rc=$?
git -C /repo worktree remove --force $wt
exit $rc
