#!/bin/bash
# multi-seed sweep of all quick checks on the unchanged tree
for s in "$@"; do
  for i in $(seq -w 1 20); do
    p=C$i
    st=$(date +%s)
    VERIF_SEED=$s nice -n 5 bin/check $p --tier quick > sweep_${s}_$p.log 2>&1
    rc=$?
    echo "seed=$s $p rc=$rc secs=$(( $(date +%s)-st )) $(grep -cE '^(VIOLATION|KNOWN-FINDING|CHECK-BROKEN)' sweep_${s}_$p.log)"
  done
done
