#!/bin/bash
# tools/thorough_some.sh <seed> <prop>...   selected thorough checks, one after the other
s=$1; shift
for p in "$@"; do
  st=$(date +%s)
  VERIF_SEED=$s nice -n 8 bin/check $p --tier thorough > thorough_${s}_$p.log 2>&1
  rc=$?
  echo "thorough seed=$s $p rc=$rc secs=$(( $(date +%s)-st )) $(grep -cE '^(VIOLATION|KNOWN-FINDING|CHECK-BROKEN)' thorough_${s}_$p.log) $(tail -1 thorough_${s}_$p.log | cut -c1-150)"
done
