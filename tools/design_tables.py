#!/usr/bin/env python3
"""tools/design_tables.py   regenerate the round-4 / round-5 result tables of DESIGN.md (between the markers) from seeded/*/meta.json"""
import json, glob, re
def table(vars_):
    rows = ["| seed | what it needs (from the author's meta.json) | own property's quick check |", "|---|---|---|"]
    det = tot = 0
    for f in sorted(glob.glob("/verif/seeded/*-[%s]/meta.json" % vars_)):
        m = json.load(open(f))
        sid = f.split("/")[-2]
        own = m.get("checks_run", {}).get(m["property"], {})
        v = own.get("verdict", "not run")
        first = [h for h in m.get("history", []) if isinstance(h, dict) and h.get("check") == m["property"]] if isinstance(m.get("history"), list) else []
        note = v
        if first and first[0].get("earlier_verdict") == "missed" and v == "DETECTED":
            note = "DETECTED after strengthening (first run: missed)"
        if v == "DETECTED":
            det += 1
            note += " — " + re.sub(r"\s+", " ", own.get("first_violation", ""))[:110].replace("|", "/")
        tot += 1
        needs = re.sub(r"\s+", " ", m.get("needs", ""))[:170].replace("|", "/")
        rows.append("| %s | %s | %s |" % (sid, needs, note))
    return "\n".join(rows) + "\n\n%d of %d detected by the quick check of their own property." % (det, tot)
p = "/verif/DESIGN.md"
s = open(p).read()
for tag, vs in (("R4", "GH"), ("R5", "IJ")):
    t = table(vs)
    if "@%s@" % tag in s:
        s = s.replace("@%s@" % tag, "<!-- %s-begin -->\n%s\n<!-- %s-end -->" % (tag, t, tag))
    else:
        s = re.sub(r"<!-- %s-begin -->.*?<!-- %s-end -->" % (tag, tag), lambda _: "<!-- %s-begin -->\n%s\n<!-- %s-end -->" % (tag, t, tag), s, flags=re.S)
open(p, "w").write(s)
