#!/usr/bin/env python3
"""tools/ingest_r4.py <id> ...   copy round-4 sub-agent output /tmp/r4/<id>/out/{A,B} to seeded/<id>-{G,H}, confirm and run the property's quick check"""
import json, os, shutil, subprocess, sys
for pid in sys.argv[1:]:
    for src, var in (("A", "G"), ("B", "H")):
        s = "/tmp/r4/%s/out/%s" % (pid, src)
        if not os.path.exists(s + "/meta.json"):
            print("missing", s); continue
        d = "/verif/seeded/%s-%s" % (pid, var)
        os.makedirs(d, exist_ok=True)
        for f in ("patch.diff", "demo_test.go"):
            shutil.copy(os.path.join(s, f), os.path.join(d, f))
        m = json.load(open(s + "/meta.json"))
        m["property"], m["variant"], m["round"] = pid, var, 4
        m["source"] = "round 4: independent sub-agent (property text + own scratch worktree only) asked for changes that need a multi-step sequence, a failed earlier call, two cooperating sites, one type/key/length among many, or a particular interleaving"
        json.dump(m, open(d + "/meta.json", "w"), indent=1)
        r = subprocess.run(["python3", "/verif/tools/try_seed.py", d], capture_output=True, text=True)
        print(r.stdout.strip(), r.stderr.strip()[-500:], flush=True)
        if os.path.exists(d + "/result.json"):
            res = json.load(open(d + "/result.json"))
            m["confirmed_by_me"] = res["confirm"]
            m["checks_run"] = {k: {"verdict": v["verdict"], "first_violation": v["first"]} for k, v in res["checks"].items()}
            m["what_i_ran"] = "tools/try_seed.py (scratch worktree; demo passes clean; patch applies; build + suite pass; demo fails; VERIF_REPO=<worktree> bin/check <property>, quick tier, seed 1; worktree removed)"
            json.dump(m, open(d + "/meta.json", "w"), indent=1)
            os.remove(d + "/result.json")
