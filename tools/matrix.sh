#!/bin/bash
# tools/matrix.sh <seed-dir>...   run ALL 20 quick checks against each seeded defect (cross-talk matrix)
for sd in "$@"; do
  props=$(for i in $(seq -w 1 20); do echo -n "C$i "; done)
  python3 /verif/tools/try_seed.py $sd $props 2>&1 | cut -c1-220
done
