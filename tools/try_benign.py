#!/usr/bin/env python3
"""tools/try_benign.py <dir with patch.diff> [prop ...]
Apply a behaviour-preserving refactoring in a scratch worktree and run the checks (default: all 20):
every one must exit 0 (soundness: no alarm on code where the properties hold)."""
import json, os, subprocess, sys, tempfile, concurrent.futures

sd = os.path.abspath(sys.argv[1])
props = sys.argv[2:] or ["C%02d" % i for i in range(1, 21)]
wt = tempfile.mkdtemp(prefix="benignwt-", dir="/tmp")
os.rmdir(wt)
def sh(cmd):
    return subprocess.run(cmd, shell=True, capture_output=True, text=True)
try:
    assert sh("git -C /repo worktree add -q %s HEAD" % wt).returncode == 0
    r = sh("git -C %s apply %s" % (wt, os.path.join(sd, "patch.diff")))
    ok_apply = r.returncode == 0
    r = sh("cd %s && go build ./... && go build -tags verif ./... && go test -vet=off -count=1 ./... 2>&1 | grep -v '^ok' | grep -v 'no test files'" % wt)
    suite = r.stdout.strip() == ""
    print("BENIGN %s: applies=%s suite_passes=%s" % (os.path.basename(os.path.dirname(sd)) + "/" + os.path.basename(sd), ok_apply, suite), flush=True)
    def runp(p):
        pr = subprocess.run("cd /verif && VERIF_REPO=%s VERIF_SCRATCH=/tmp VERIF_EVIDENCE_DIR=/tmp/seed-evidence VERIF_REPLAY_DIR=/tmp/seed-replays timeout 1800 bin/check %s 2>&1" % (wt, p), shell=True, capture_output=True, text=True)
        return p, pr.returncode, pr.stdout
    res = {}
    with concurrent.futures.ThreadPoolExecutor(max_workers=5) as ex:
        for p, rc, o in ex.map(runp, props):
            res[p] = rc
            if rc != 0:
                lines = [l for l in o.splitlines() if "violation:" in l or "BROKEN" in l]
                print("  ALARM %s rc=%d %s" % (p, rc, (lines[0] if lines else o.strip().splitlines()[-1])[:220]), flush=True)
    print("  %d of %d checks silent" % (sum(1 for v in res.values() if v == 0), len(res)), flush=True)
    json.dump({"applies": ok_apply, "suite": suite, "checks": res}, open(os.path.join(sd, "result.json"), "w"), indent=1)
finally:
    sh("git -C /repo worktree remove --force %s" % wt)
