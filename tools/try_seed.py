#!/usr/bin/env python3
"""tools/try_seed.py <seed-dir> [prop ...]
Confirm a seeded defect (patch.diff + demo_test.go + meta.json) in a scratch worktree and run the given
checks (default: the property named in meta.json) against it.  Prints a one-line summary per check."""
import json, os, subprocess, sys, shutil, tempfile

sd = os.path.abspath(sys.argv[1])
meta = json.load(open(os.path.join(sd, "meta.json")))
props = sys.argv[2:] or [meta["property"]]
wt = tempfile.mkdtemp(prefix="seedwt-", dir="/tmp")
os.rmdir(wt)
def sh(cmd, **kw):
    return subprocess.run(cmd, shell=True, capture_output=True, text=True, **kw)
try:
    r = sh("git -C /repo worktree add -q %s HEAD" % wt)
    assert r.returncode == 0, r.stderr
    demo_dir = meta.get("demo_dir", "").strip("/").replace("/tmp/seed2/", "").replace("/tmp/seed/", "")
    import re as _re
    flags = " ".join(f for f in ("-tags verif", "-race") if f in meta.get("demo_run", ""))
    demo_dst = os.path.join(wt, demo_dir, "zz_seed_demo_test.go")
    res = {}
    # demo on the clean tree
    shutil.copy(os.path.join(sd, "demo_test.go"), demo_dst)
    r = sh("cd %s && go test %s -vet=off -count=1 ./%s/ 2>&1 | tail -3" % (wt, flags, demo_dir))
    res["demo_passes_without_change"] = "ok " in r.stdout and "FAIL" not in r.stdout
    os.remove(demo_dst)
    r = sh("git -C %s apply %s" % (wt, os.path.join(sd, "patch.diff")))
    res["applies"] = r.returncode == 0
    r = sh("cd %s && go build ./... && go build -tags verif ./... && go test -vet=off -count=1 ./... 2>&1 | grep -v '^ok' | grep -v 'no test files'" % wt)
    res["suite_passes_with_change"] = r.stdout.strip() == "" and r.returncode in (0, 1)
    shutil.copy(os.path.join(sd, "demo_test.go"), demo_dst)
    r = sh("cd %s && go test %s -vet=off -count=1 ./%s/ 2>&1 | tail -3" % (wt, flags, demo_dir))
    res["demo_fails_with_change"] = "FAIL" in r.stdout
    os.remove(demo_dst)
    print("SEED %s/%s: %s" % (meta["property"], meta.get("variant", ""), res), flush=True)
    out = {}
    import concurrent.futures
    def runp(p):
        pr = subprocess.Popen("cd /verif && VERIF_REPO=%s VERIF_SCRATCH=/tmp VERIF_EVIDENCE_DIR=/tmp/seed-evidence VERIF_REPLAY_DIR=/tmp/seed-replays timeout 1800 bin/check %s 2>&1" % (wt, p), shell=True,
                              stdout=subprocess.PIPE, text=True)
        o, _ = pr.communicate()
        return p, pr, o
    with concurrent.futures.ThreadPoolExecutor(max_workers=5) as ex:
        done = list(ex.map(runp, props))
    for p, pr, o in done:
        viol = [l for l in o.splitlines() if "violation:" in l]
        verdict = "DETECTED" if pr.returncode == 1 else ("missed" if pr.returncode == 0 else "BROKEN(rc=%d)" % pr.returncode)
        out[p] = {"rc": pr.returncode, "verdict": verdict, "first": viol[0].strip() if viol else ""}
        print("  check %s -> %s %s" % (p, verdict, viol[0].strip()[:160] if viol else (o.strip().splitlines()[-1][:200] if pr.returncode == 2 else "")), flush=True)
    json.dump({"confirm": res, "checks": out}, open(os.path.join(sd, "result.json"), "w"), indent=1)
finally:
    sh("git -C /repo worktree remove --force %s" % wt)
    # replays written while judging a seeded tree are not evidence about /repo
