#!/usr/bin/env python3
"""tools/ingest_r5.py <id> ...   copy round-5 sub-agent output /tmp/r5/<id>-out/{I,J} to seeded/<id>-{I,J}, confirm and run the property's quick check"""
import json, os, shutil, subprocess, sys
for pid in sys.argv[1:]:
    for var in ("I", "J"):
        s = "/tmp/r5/%s-out/%s" % (pid, var)
        if not os.path.exists(s + "/meta.json"):
            print("missing", s); continue
        d = "/verif/seeded/%s-%s" % (pid, var)
        os.makedirs(d, exist_ok=True)
        for f in ("patch.diff", "demo_test.go"):
            shutil.copy(os.path.join(s, f), os.path.join(d, f))
        m = json.load(open(s + "/meta.json"))
        m["property"], m["variant"], m["round"] = pid, var, 5
        m["source"] = "round 5: independent sub-agent (property text + own scratch worktree only, nothing from /verif) asked for plausible maintainer changes that need something specific to manifest; hash-collision tricks excluded"
        json.dump(m, open(d + "/meta.json", "w"), indent=1)
        r = subprocess.run(["python3", "/verif/tools/try_seed.py", d], capture_output=True, text=True)
        print(r.stdout.strip(), r.stderr.strip()[-500:], flush=True)
        if os.path.exists(d + "/result.json"):
            res = json.load(open(d + "/result.json"))
            m["confirmed_by_me"] = res["confirm"]
            m["checks_run"] = {k: {"verdict": v["verdict"], "first_violation": v["first"]} for k, v in res["checks"].items()}
            m["what_i_ran"] = "tools/try_seed.py (scratch worktree; demo passes clean; patch applies; build + suite pass; demo fails; VERIF_REPO=<worktree> bin/check <property>, quick tier, seed 1; worktree removed)"
            json.dump(m, open(d + "/meta.json", "w"), indent=1)
            os.remove(d + "/result.json")
