#!/usr/bin/env python3
"""tools/adhoc.py <prop> '<python statements using run>'   developer aid: run single stages of a check (no evidence written).
   e.g. tools/adhoc.py C06 'run.trace("history", 20, poison=2)'   (VERIF_REPO / VERIF_SEED / VERIF_DEBUG honoured)"""
import sys, os
sys.path.insert(0, os.path.join(os.path.dirname(os.path.abspath(__file__)), "..", "lib"))
import vcheck, props
from props import *
run = vcheck.Run(sys.argv[1], os.environ.get("VERIF_TIER", "quick"), int(os.environ.get("VERIF_SEED", "1")))
try:
    exec(sys.argv[2])
    for v in run.violations:
        print("  violation:", v["what"], v["replay"])
    print("violations:", len(run.violations), "known:", dict(run.known))
except vcheck.Broken as e:
    print("CHECK-BROKEN", e)
finally:
    run.cleanup()
