#!/usr/bin/env python3
"""tools/fold_results.py   fold seeded/*/result.json (written by tools/try_seed.py) into meta.json: the latest verdict of every check run
against the seed, keeping the first verdict as history"""
import json, glob, os
for rp in sorted(glob.glob("/verif/seeded/*/result.json")):
    d = os.path.dirname(rp)
    res = json.load(open(rp))
    m = json.load(open(d + "/meta.json"))
    old = m.get("checks_run", {})
    for k, v in res["checks"].items():
        if v["verdict"].startswith("BROKEN"):
            print(os.path.basename(d), k, "broken run ignored:", v["verdict"]); continue
        prev = old.get(k)
        if prev and prev.get("verdict") != v["verdict"]:
            m.setdefault("history", [])
            if isinstance(m["history"], list):
                m["history"].append({"check": k, "earlier_verdict": prev.get("verdict"), "now": v["verdict"], "note": "after the strengthenings recorded in DESIGN.md section 7"})
        old[k] = {"verdict": v["verdict"], "first_violation": v["first"]}
        print(os.path.basename(d), k, v["verdict"])
    m["checks_run"] = old
    m["confirmed_by_me"] = {**m.get("confirmed_by_me", {}), **{k: v for k, v in res["confirm"].items() if v or k not in m.get("confirmed_by_me", {})}}
    json.dump(m, open(d + "/meta.json", "w"), indent=1)
    os.remove(rp)
