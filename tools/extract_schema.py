#!/usr/bin/env python3
"""Bootstrap tool (NOT used by any check): freeze the wire schema of the pinned commit.

The .pdsl sources named by the Makefiles are not in the repository (submodules/fin-proto
is empty), so the "pinned protocol schema" is frozen once from the generated code at the
pinned commit by three independent walks that must agree:
  (1) the struct declaration  (field names, Go types)
  (2) the Encode body         (order, widths, pads, prefix widths)
  (3) the Decode body         (order, widths, pads, prefix widths, factories)
Byte order is recorded PER PROTOCOL (from the scalar calls), not per call site, so a
big-endian element inside a little-endian protocol is *not* frozen in.
Output: /verif/schema/pinned.json (reviewed by hand, then committed; from then on it, not
the Go code, is the reference).
"""
import json, re, sys, os, glob

REPO = sys.argv[1] if len(sys.argv) > 1 else "/repo"
PROTOS = [
    ("sse", "sse-bin", "BE", "sse_bin_v0.57"),
    ("szse", "szse-bin", "BE", "szse_bin_v1.29"),
    ("bse", "bjse-trade-bin", "LE", "bse_trade_bin_v0.9"),
    ("risk", "risk-bin", "BE", "risk_v0.1.0"),
    ("sample", "sample-bin", "LE", "sample"),
]
GO = {"int8": ("i8", 1), "int16": ("i16", 2), "int32": ("i32", 4), "int64": ("i64", 8),
      "uint8": ("u8", 1), "uint16": ("u16", 2), "uint32": ("u32", 4), "uint64": ("u64", 8),
      "byte": ("u8", 1), "float32": ("f32", 4), "float64": ("f64", 8)}
PW = {"uint8": 1, "uint16": 2, "uint32": 4, "uint64": 8}


def die(msg):
    print("EXTRACT ERROR:", msg, file=sys.stderr)
    sys.exit(2)


def char(c):
    c = c[1:-1]
    if c.startswith("\\x"):
        return int(c[2:], 16)
    assert len(c) == 1, c
    return ord(c)


def funcs(src, recv_kind):
    out = {}
    for m in re.finditer(r"^func \(p \*(\w+)\) %s\(buf \*bytes\.Buffer\) error \{\n(.*?)^\}" % recv_kind, src, re.S | re.M):
        out[m.group(1)] = m.group(2)
    return out


def parse_struct(src):
    out = {}
    for m in re.finditer(r"^type (\w+) struct \{\n(.*?)^\}", src, re.S | re.M):
        fields = []
        for line in m.group(2).splitlines():
            line = line.strip()
            if not line:
                continue
            mm = re.match(r"(\w+)\s+(\S+)", line)
            fields.append((mm.group(1), mm.group(2)))
        out[m.group(1)] = fields
    return out


def walk_encode(proto, tname, body, gotypes, endian_seen):
    """returns list of field dicts in wire order"""
    fields = []
    lines = [l.strip() for l in body.splitlines()]
    i = 0
    pending_len = None
    while i < len(lines):
        l = lines[i]
        i += 1
        m = re.match(r"if err := codec\.WriteBasicType(LE)?\(buf, p\.(\w+)\); err != nil \{", l)
        if m:
            endian_seen.add("LE" if m.group(1) else "BE")
            g = gotypes[m.group(2)]
            fields.append({"name": m.group(2), "kind": "int", "w": GO[g][1], "go": GO[g][0]})
            continue
        m = re.match(r"if err := codec\.WriteBasicType(LE)?\(buf, uint32\(0\)\); err != nil \{", l)
        if m:
            endian_seen.add("LE" if m.group(1) else "BE")
            # name is in the error message on the next line
            mm = re.search(r'"failed to encode %s: %w", "(\w+)"', lines[i])
            fields.append({"name": None, "wirename": mm.group(1), "kind": "len", "w": 4})
            continue
        m = re.match(r"p\.(\w+) = uint32\((\w+)End - (\w+)Start\)", l)
        if m:
            for f in fields:
                if f["kind"] == "len":
                    f["name"] = m.group(1)
            continue
        m = re.match(r"if err := codec\.WriteFixedString\(buf, p\.(\w+), (\d+)\); err != nil \{", l)
        if m:
            fields.append({"name": m.group(1), "kind": "fixed", "n": int(m.group(2)), "pad": 32, "left": False})
            continue
        m = re.match(r"if err := codec\.WriteFixedStringWithPadding\(buf, p\.(\w+), (\d+), ('[^']+'), (true|false)\); err != nil \{", l)
        if m:
            fields.append({"name": m.group(1), "kind": "fixed", "n": int(m.group(2)), "pad": char(m.group(3)), "left": m.group(4) == "true"})
            continue
        m = re.match(r"if err := codec\.WriteString(LE)?\[(\w+)\]\(buf, p\.(\w+)\); err != nil \{", l)
        if m:
            endian_seen.add("LE" if m.group(1) else "BE")
            fields.append({"name": m.group(3), "kind": "str", "pw": PW[m.group(2)]})
            continue
        m = re.match(r"if err := codec\.WriteBasicTypeList(LE)?\[(\w+)\]\(buf, p\.(\w+)\); err != nil \{", l)
        if m:
            endian_seen.add("LE" if m.group(1) else "BE")
            g = gotypes[m.group(3)]
            assert g.startswith("[]"), g
            g = g[2:]
            fields.append({"name": m.group(3), "kind": "list", "pw": PW[m.group(2)], "elem": {"kind": "int", "w": GO[g][1], "go": GO[g][0]}})
            continue
        m = re.match(r"if err := codec\.WriteFixedStringList(LE)?\[(\w+)\]\(buf, p\.(\w+), (\d+)\); err != nil \{", l)
        if m:
            endian_seen.add("LE" if m.group(1) else "BE")
            fields.append({"name": m.group(3), "kind": "list", "pw": PW[m.group(2)], "elem": {"kind": "fixed", "n": int(m.group(4)), "pad": 32, "left": False}})
            continue
        m = re.match(r"if err := codec\.WriteFixedStringListWithPadding(LE)?\[(\w+)\]\(buf, p\.(\w+), (\d+), ('[^']+'), (true|false)\); err != nil \{", l)
        if m:
            endian_seen.add("LE" if m.group(1) else "BE")
            fields.append({"name": m.group(3), "kind": "list", "pw": PW[m.group(2)], "elem": {"kind": "fixed", "n": int(m.group(4)), "pad": char(m.group(5)), "left": m.group(6) == "true"}})
            continue
        m = re.match(r"if err := codec\.WriteStringList(LE)?\[(\w+), (\w+)\]\(buf, p\.(\w+)\); err != nil \{", l)
        if m:
            endian_seen.add("LE" if m.group(1) else "BE")
            fields.append({"name": m.group(4), "kind": "list", "pw": PW[m.group(2)], "elem": {"kind": "str", "pw": PW[m.group(3)]}})
            continue
        m = re.match(r"if err := codec\.WriteObjectList(LE)?\[(\w+)\]\(buf, p\.(\w+)\); err != nil \{", l)
        if m:
            endian_seen.add("LE" if m.group(1) else "BE")
            g = gotypes[m.group(3)]
            assert g.startswith("[]*"), g
            fields.append({"name": m.group(3), "kind": "objlist", "pw": PW[m.group(2)], "type": proto + "." + g[3:]})
            continue
        m = re.match(r"if p\.(\w+) != nil \{", l)
        if m:
            # frame body, skipped when nil
            assert re.match(r"if err := p\.%s\.Encode\(buf\); err != nil \{" % m.group(1), lines[i]), lines[i]
            i += 1
            fields.append({"name": m.group(1), "kind": "body", "nil": "skip"})
            continue
        m = re.match(r"if p\.(\w+) == nil \{", l)
        if m:
            mm = re.match(r"if val, err := (New\w+)\(p\.(\w+)\); err != nil \{", lines[i])
            assert mm, lines[i]
            fields.append({"name": m.group(1), "kind": "body", "nil": "materialise", "factory": mm.group(1), "key": mm.group(2)})
            # skip to the Encode call
            while not re.match(r"if err := p\.%s\.Encode\(buf\); err != nil \{" % m.group(1), lines[i]):
                i += 1
            i += 1
            continue
        m = re.match(r"if err := p\.(\w+)\.Encode\(buf\); err != nil \{", l)
        if m:
            g = gotypes[m.group(1)]
            assert g.startswith("*"), g
            fields.append({"name": m.group(1), "kind": "obj", "type": proto + "." + g[1:]})
            continue
        m = re.match(r'if checksumService, ok := codec\.Get\("(\w+)"\); ok \{', l)
        if m:
            mm = re.match(r"p\.(\w+) = checksumService\.\(codec\.ChecksumService\[\*bytes\.Buffer, (\w+)\]\)\.Calc\(buf\)", lines[i])
            assert mm, lines[i]
            pending_len = (mm.group(1), m.group(1), mm.group(2))
            i += 1
            continue
        m = re.match(r"binary\.(Big|Little)Endian\.PutUint32\(buf\.Bytes\(\)\[(\w+)Pos:(\w+)Pos\+4\], p\.(\w+)\)", l)
        if m:
            endian_seen.add("LE" if m.group(1) == "Little" else "BE")
            continue
        if l in ("}", "return err", "return nil", "// Implement encoding logic here.", "} else {", "") or l.startswith("return fmt.Errorf(") or re.match(r"(\w+)(Pos|Start|End) := buf\.Len\(\)", l) or re.match(r"p\.\w+ = val", l):
            continue
        die("%s.%s Encode: unrecognised line: %s" % (proto, tname, l))
    if pending_len:
        fname, alg, gt = pending_len
        for f in fields:
            if f["name"] == fname:
                assert f["kind"] == "int" and f["w"] == 4
                f["kind"] = "checksum"
                f["alg"] = alg
    return fields


def walk_decode(proto, tname, body, gotypes, endian_seen):
    fields = []
    lines = [l.strip() for l in body.splitlines()]
    i = 0

    def assigned():
        # "} else {" / "p.X = val"
        nonlocal i
        j = i
        while not re.match(r"p\.(\w+) = val", lines[j]):
            j += 1
        return re.match(r"p\.(\w+) = val", lines[j]).group(1)

    factories = {}
    while i < len(lines):
        l = lines[i]
        i += 1
        m = re.match(r"if val, err := codec\.ReadBasicType(LE)?\[(\w+)\]\(buf\); err != nil \{", l)
        if m:
            endian_seen.add("LE" if m.group(1) else "BE")
            fields.append({"name": assigned(), "kind": "int", "w": GO[m.group(2)][1], "go": GO[m.group(2)][0]})
            continue
        m = re.match(r"if val, err := codec\.ReadFixedString\(buf, (\d+)\); err != nil \{", l)
        if m:
            fields.append({"name": assigned(), "kind": "fixed", "n": int(m.group(1)), "pad": 32, "left": False})
            continue
        m = re.match(r"if val, err := codec\.ReadFixedStringTrimPadding\(buf, (\d+), ('[^']+'), (true|false)\); err != nil \{", l)
        if m:
            fields.append({"name": assigned(), "kind": "fixed", "n": int(m.group(1)), "pad": char(m.group(2)), "left": m.group(3) == "true"})
            continue
        m = re.match(r"if val, err := codec\.ReadString(LE)?\[(\w+)\]\(buf\); err != nil \{", l)
        if m:
            endian_seen.add("LE" if m.group(1) else "BE")
            fields.append({"name": assigned(), "kind": "str", "pw": PW[m.group(2)]})
            continue
        m = re.match(r"if val, err := codec\.ReadBasicTypeList(LE)?\[(\w+), (\w+)\]\(buf\); err != nil \{", l)
        if m:
            endian_seen.add("LE" if m.group(1) else "BE")
            fields.append({"name": assigned(), "kind": "list", "pw": PW[m.group(2)], "elem": {"kind": "int", "w": GO[m.group(3)][1], "go": GO[m.group(3)][0]}})
            continue
        m = re.match(r"if val, err := codec\.ReadFixedStringList(LE)?\[(\w+)\]\(buf, (\d+)\); err != nil \{", l)
        if m:
            endian_seen.add("LE" if m.group(1) else "BE")
            fields.append({"name": assigned(), "kind": "list", "pw": PW[m.group(2)], "elem": {"kind": "fixed", "n": int(m.group(3)), "pad": 32, "left": False}})
            continue
        m = re.match(r"if val, err := codec\.ReadFixedStringListTrimPadding(LE)?\[(\w+)\]\(buf, (\d+), ('[^']+'), (true|false)\); err != nil \{", l)
        if m:
            endian_seen.add("LE" if m.group(1) else "BE")
            fields.append({"name": assigned(), "kind": "list", "pw": PW[m.group(2)], "elem": {"kind": "fixed", "n": int(m.group(3)), "pad": char(m.group(4)), "left": m.group(5) == "true"}})
            continue
        m = re.match(r"if val, err := codec\.ReadStringList(LE)?\[(\w+), (\w+)\]\(buf\); err != nil \{", l)
        if m:
            endian_seen.add("LE" if m.group(1) else "BE")
            fields.append({"name": assigned(), "kind": "list", "pw": PW[m.group(2)], "elem": {"kind": "str", "pw": PW[m.group(3)]}})
            continue
        m = re.match(r"if val, err := codec\.ReadObjectList(LE)?\[(\w+)\]\(buf, func\(\) \*(\w+) \{ return &(\w+)\{\} \}\); err != nil \{", l)
        if m:
            endian_seen.add("LE" if m.group(1) else "BE")
            assert m.group(3) == m.group(4)
            fields.append({"name": assigned(), "kind": "objlist", "pw": PW[m.group(2)], "type": proto + "." + m.group(3)})
            continue
        m = re.match(r"if val, err := (New\w+)\(p\.(\w+)\); err != nil \{", l)
        if m:
            tgt = assigned()
            factories[tgt] = (m.group(1), m.group(2))
            continue
        m = re.match(r"if p\.(\w+) == nil \{", l)
        if m:
            mm = re.match(r"p\.%s = &(\w+)\{\}" % m.group(1), lines[i])
            assert mm, lines[i]
            i += 1
            continue
        m = re.match(r"if err := p\.(\w+)\.Decode\(buf\); err != nil \{", l)
        if m:
            n = m.group(1)
            if n in factories:
                fields.append({"name": n, "kind": "body", "factory": factories[n][0], "key": factories[n][1]})
            else:
                g = gotypes[n]
                assert g.startswith("*"), g
                fields.append({"name": n, "kind": "obj", "type": proto + "." + g[1:]})
            continue
        if l in ("}", "return err", "return nil", "} else {", "") or re.match(r"p\.\w+ = val", l):
            continue
        die("%s.%s Decode: unrecognised line: %s" % (proto, tname, l))
    return fields


def strip_for_compare(f):
    g = {k: v for k, v in f.items() if k in ("name", "kind", "w", "go", "n", "pad", "left", "pw", "elem", "type")}
    if g["kind"] in ("len", "checksum"):
        g["kind"] = "int"
        g.setdefault("go", "u32")
    if g["kind"] == "body":
        pass
    return g


def main():
    schema = {"protocols": {}, "types": {}, "tables": {}, "frames": {}}
    for proto, d, endian, version in PROTOS:
        schema["protocols"][proto] = {"endian": endian, "version": version, "dir": d + "/messages"}
        endian_scalar = set()
        tables_by_factory = {}
        files = sorted(f for f in glob.glob(os.path.join(REPO, d, "messages", "*.go")) if not f.endswith("_test.go"))
        for path in files:
            src = open(path).read()
            if "Code generated by fin-protoc" not in src:
                continue  # hand-written, see below
            structs = parse_struct(src)
            enc = funcs(src, "Encode")
            dec = funcs(src, "Decode")
            # tables
            for m in re.finditer(r"var (\w+)FactoryCache = map\[(\w+)\]func\(\) codec\.BinaryCodec\{\}", src):
                cache = m.group(1)
                keyty = m.group(2)
                reg = re.search(r"func (Registry\w+Factory)\(\w+ %s, factory func\(\) codec\.BinaryCodec\) \{\n\t%sFactoryCache\[" % (keyty, cache), src).group(1)
                newf = re.search(r"func (New\w+MessageBy\w+)\(key %s\) \(codec\.BinaryCodec, error\) \{\n\tif factory, ok := %sFactoryCache\[key\]" % (keyty, cache), src).group(1)
                entries = []
                for mm in re.finditer(r"%s\((\"[^\"]*\"|\d+), func\(\) codec\.BinaryCodec \{ return &(\w+)\{\} \}\)" % reg, src):
                    k = mm.group(1)
                    if keyty == "string":
                        kb = [ord(c) for c in k[1:-1]]
                    else:
                        w = GO[keyty][1]
                        kb = list(int(k).to_bytes(w, "big"))
                    entries.append({"key": kb, "type": proto + "." + mm.group(2), "lit": k})
                tables_by_factory[newf] = {"keyty": keyty, "entries": entries, "registry_fn": reg, "new_fn": newf, "file": os.path.relpath(path, REPO)}
            for tname, sfields in structs.items():
                gotypes = dict(sfields)
                if tname not in enc or tname not in dec:
                    die("%s.%s has no Encode/Decode" % (proto, tname))
                seen_e, seen_d = set(), set()
                fe = walk_encode(proto, tname, enc[tname], gotypes, seen_e)
                fd = walk_decode(proto, tname, dec[tname], gotypes, seen_d)
                # walk 1 vs 2 vs 3
                if [f["name"] for f in fe] != [n for n, _ in sfields]:
                    die("%s.%s: struct order %s != encode order %s" % (proto, tname, [n for n, _ in sfields], [f["name"] for f in fe]))
                if [strip_for_compare(f) for f in fe if f["kind"] != "body"] != [strip_for_compare(f) for f in fd if f["kind"] != "body"]:
                    die("%s.%s: encode and decode walks disagree\n%s\n%s" % (proto, tname, fe, fd))
                if [f["name"] for f in fe] != [f["name"] for f in fd]:
                    die("%s.%s: order differs" % (proto, tname))
                # merge body info from decode
                for a, b in zip(fe, fd):
                    if a["kind"] == "body":
                        assert b["kind"] == "body", (proto, tname, a, b)
                        if "factory" in a:
                            assert (a["factory"], a["key"]) == (b["factory"], b["key"])
                        a["factory"], a["key"] = b["factory"], b["key"]
                # only record scalar endianness for the per-protocol byte order
                for l in enc[tname].splitlines():
                    mm = re.search(r"codec\.WriteBasicType(LE)?\(buf, p\.", l)
                    if mm:
                        endian_scalar.add("LE" if mm.group(1) else "BE")
                for f in fe:
                    f.pop("wirename", None)
                schema["types"][proto + "." + tname] = {"proto": proto, "fields": fe, "file": os.path.relpath(path, REPO)}
        if endian_scalar != {endian}:
            die("%s: scalar byte order %s, expected %s" % (proto, endian_scalar, endian))
        # resolve tables
        for tn, t in schema["types"].items():
            if t["proto"] != proto:
                continue
            for f in t["fields"]:
                if f["kind"] == "body":
                    tab = tables_by_factory[f.pop("factory")]
                    tabname = tn + "." + f["key"]
                    f["table"] = tabname
                    keyfield = [g for g in t["fields"] if g["name"] == f["key"]][0]
                    schema["tables"][tabname] = {"keykind": keyfield["kind"], "owner": tn, "keyfield": f["key"],
                                                 "registry_fn": tab["registry_fn"], "new_fn": tab["new_fn"], "file": tab["file"],
                                                 "entries": tab["entries"]}
    # hand-written types (sample-bin/messages/risk_control_request.go): big-endian, space padded. Written out by hand
    # from the source, reviewed against it.
    schema["protocols"]["hw"] = {"endian": "BE", "version": "hand-written (sample-bin/messages/risk_control_request.go)", "dir": "sample-bin/messages"}
    schema["types"]["hw.SubOrder"] = {"proto": "hw", "file": "sample-bin/messages/risk_control_request.go", "fields": [
        {"name": "ClOrdID", "kind": "fixed", "n": 16, "pad": 32, "left": False},
        {"name": "Price", "kind": "int", "w": 8, "go": "u64"},
        {"name": "Qty", "kind": "int", "w": 4, "go": "u32"}]}
    schema["types"]["hw.RiskControlRequest"] = {"proto": "hw", "file": "sample-bin/messages/risk_control_request.go", "fields": [
        {"name": "UniqueOrderID", "kind": "str", "pw": 2},
        {"name": "ClOrdID", "kind": "fixed", "n": 16, "pad": 32, "left": False},
        {"name": "MarketID", "kind": "fixed", "n": 3, "pad": 32, "left": False},
        {"name": "SecurityID", "kind": "fixed", "n": 12, "pad": 32, "left": False},
        {"name": "Side", "kind": "int", "w": 1, "go": "u8"},
        {"name": "OrderType", "kind": "int", "w": 1, "go": "u8"},
        {"name": "Price", "kind": "int", "w": 8, "go": "u64"},
        {"name": "Qty", "kind": "int", "w": 4, "go": "u32"},
        {"name": "ExtraInfo", "kind": "list", "pw": 2, "elem": {"kind": "str", "pw": 2}},
        {"name": "SubOrder", "kind": "obj", "type": "hw.SubOrder", "byvalue": True}]}
    json.dump(schema, sys.stdout, indent=1, sort_keys=False)
    print()
    print("types=%d tables=%d keys=%d" % (len(schema["types"]), len(schema["tables"]), sum(len(t["entries"]) for t in schema["tables"].values())), file=sys.stderr)


main()
