#!/usr/bin/env python3
"""Regenerates /verif/MANIFEST.json from the table below (keeps it valid at all times)."""
import json, subprocess, sys
sys.path.insert(0, '/verif/lib')
import props

PROPS = ["C%02d" % i for i in range(1, 21)]
TEXT = {
 "C01": ("round trip encode->decode on the real types is validated by TLC against the FIFO-channel view of the buffer (Channel refinement) for canonical values decided by Canonical(T,v) of the specification", "§3 C01"),
 "C02": ("every recorded Encode/Decode of the real types is compared byte-for-byte / value-for-value by TLC with EncMsg/DecMsg, an interpreter of the pinned schema written in TLA+ that shares no code with the library", "§3 C02"),
 "C03": ("primitive pairs and whole messages: TLC decides from the integer-slot mask of the pinned layout whether the real bytes differ from the pinned rendering only by the byte order of an integer", "§3 C03"),
 "C04": ("frame-encode histories (prior content, consumed prefix, stale fields) from the six-step frame model are run on the real frames; TLC checks the length field of the bytes this frame appended and the object's length", "§3 C04"),
 "C05": ("as C04 for the checksum: TLC recomputes the exchange algorithm (Checksums.tla) over exactly this frame's appended bytes", "§3 C05"),
 "C06": ("append-only / context-free / repeatable as action properties of the buffer machine; traces validated with the ghost function F (one rendering per message per behaviour)", "§3 C06"),
 "C07": ("refinement of the byte machine to a FIFO channel: each Decode must consume exactly the head message's bytes and leave the rest", "§3 C07"),
 "C08": ("decode of fuzzed wire images followed by encode of the result: TLC requires the consumed bytes back, with self-computed fields replaced by their correct values", "§3 C08"),
 "C09": ("outcome alphabet {ok, err} of the decode action; hostile inputs generated from the specification; panics/aborts/hangs observed by sensors and entered as events that no action explains", "§3 C09"),
 "C10": ("allocation meter of the decode action (reserve only what is present) against the measured TotalAlloc of the real decoders on specification-generated hostile prefixes", "§3 C10"),
 "C11": ("every cut position of canonical encodings: the spec marks the buffer as holding a strict prefix, the Decode action then must return an error", "§3 C11"),
 "C12": ("all 18 tables x 226 registered keys x unregistered keys, both directions; TLC compares the dynamic type built with Lookup over the pinned tables", "§3 C12"),
 "C13": ("PadFixed/TrimFixed are the statement of C13 in TLA+; exhaustive small model + recorded calls of the real primitives validated by TLC", "§3 C13"),
 "C14": ("published definitions of the four algorithms in TLA+ (check values as ASSUMEs); recorded Calc results of the real services recomputed by TLC", "§3 C14"),
 "C15": ("decode is a function of the bytes: ghost G in the trace spec; dirty receivers of every type", "§3 C15"),
 "C16": ("Scribble changes only buffers, Mutate only objects (disjoint variables); observations of the real objects/buffers after such steps must equal the spec state", "§3 C16"),
 "C17": ("outcome alphabet {ok, err} of the encode action over zero values, wild values and every pattern of nil slots", "§3 C17"),
 "C18": ("Fits(len, prefix width) guards the encode action; lengths at and beyond each prefix maximum on the real primitives and messages", "§3 C18"),
 "C19": ("TLC model of the registry at lock granularity (mutual exclusion, linearizability, one winner); recorded concurrent histories of the real registry are checked for linearizability by TLC", "§3 C19"),
 "C20": ("non-interference model; per-goroutine traces of real parallel runs validated by the sequential trace spec and compared with the solo run; race detector as sensor", "§3 C20"),
}
NOTE = ("Trusted: TLC + CommunityModules (Json, IOUtils, Bitwise); the frozen schema schema/pinned.json (frozen from the pinned commit because the .pdsl sources are absent); "
        "the reflection dumper/builder of the harness (self-tested). Conformance is by execution (exhaustive over TLC's bounded behaviours, seeded sampling over values), not proof.")

m = json.load(open('/verif/MANIFEST.json'))
hooks = m["hooks"]
checks = []
na = []
for p in PROPS:
    if p in props.CHECKS:
        checks.append({
            "property_id": p,
            "quick_cmd": "bin/check %s --tier quick" % p,
            "thorough_cmd": "bin/check %s --tier thorough" % p,
            "evidence_file": "/verif/evidence/%s.json" % p,
            "replay_cmd_template": "bin/check %s --replay {path}" % p,
            "engine": "tlc-trace",
            "level_claimed": {"category": "model_checking", "text": TEXT[p][0], "design_ref": TEXT[p][1]},
            "level_note": NOTE,
            "technique": "TLA+ specification checked with TLC + trace validation / behaviour replay against the real code",
        })
    else:
        na.append({"property_id": p, "reason": "check under construction in this session (not a statement about applicability)"})
hooks["source_commits"] = ["29fd32e"]
hooks["add_only"] = True
hooks["baseline_off_cmd"] = "cd /repo && go test -vet=off -count=1 ./..."
m["checks"] = checks
m["not_applicable"] = na
m["setup_cmd"] = "bin/setup"
m["engines"] = [{"name": "tlc-trace", "path": "/verif/bin/check", "serves_properties": [c["property_id"] for c in checks],
                 "kind_free_text": "python orchestrator: rebuilds the Go harness from /repo, runs TLC on the TLA+ models (spec/*.tla), replays TLC behaviours on the real code and validates recorded traces with TLC"}]
m["notes"] = "See DESIGN.md. VERIF_SEED seeds the drivers; VERIF_TIER or --tier selects quick/thorough."
json.dump(m, open('/verif/MANIFEST.json', 'w'), indent=1)
print("checks:", [c["property_id"] for c in checks], "not applicable:", [n["property_id"] for n in na])
