"""Per-property check definitions: which design models TLC checks, which behaviours are
replayed on the real code (A), which recorded traces TLC validates (B)."""
import json, os, subprocess
from vcheck import Broken, log, validate_trace, VERIF, SCHEMA

Q = lambda run, q, t: q if run.tier == "quick" else t

RULE_TRACE = ("direction B: seeded drivers run histories on the real code (all 170 pinned types unless noted); every event is "
              "validated by TLC against the trace specification with this property's clauses; distinct_nontrivial = number of distinct "
              "(type, field, boundary-class) triples the generators hit (e.g. text empty/full/interior-pad, list 0/1/n/>255, integer "
              "sign/extreme patterns, each registered discriminator key), summed over drivers. ")


def c01(run):
    run.format_theorems(Q(run, 1, 6))
    wire_design(run, [])
    run.trace("roundtrip-canon", Q(run, 4, 200))
    run.trace("big-frames", Q(run, 4, 12), types=["sse.SseBinary", "szse.SzseBinary", "risk.RcBinary", "sample.RootPacket", "bse.BjseBinary"], seed_off=300, chunk=30)
    run.trace("stream", Q(run, 2, 30), seed_off=100)
    run.trace("prim-sweep", Q(run, 1, 2), seed_off=200, chunk=600)
    run.trace("roundtrip-canon", Q(run, 1, 20), seed_off=600, poison=2, small=True)
    # discriminators registered at run time (before the first look-up of the process, a new key and an overridden key per table)
    run.trace("tables-dynamic", Q(run, 2, 20), seed_off=700, patch_tables=True)
    run.assumptions += ["canonical domain decided by Canonical(T, v) in Codec.tla", "self-computed fields compared with the object the encoder left behind (their correctness is C04/C05)"]
    return run.finish(RULE_TRACE)


def c02(run):
    wire_design(run, [], mode="equal")      # the model's bytes ARE the pinned rendering: full equality after every step
    run.trace("roundtrip-wild", Q(run, 4, 200))
    run.trace("roundtrip-canon", Q(run, 2, 100), seed_off=100)
    run.trace("tables", Q(run, 1, 6), seed_off=200)
    path, st = run.child_trace(run.spec_images(Q(run, 2, 40), reencode=False), "spec-images")
    run.judge(path, st, "spec-images")
    run.trace("prim-sweep", Q(run, 1, 2), seed_off=400, chunk=600)
    run.trace("neighbours", Q(run, 1, 4), seed_off=500)
    run.trace("registry-frames", Q(run, 20, 1000), types=["sse.SseBinary", "szse.SzseBinary", "sample.RootPacket"], seed_off=300)
    run.trace("roundtrip-canon", Q(run, 1, 20), seed_off=600, poison=2, small=True)
    run.trace("encode-reuse", Q(run, 2, 12), seed_off=700)
    run.receiver_design(mode="equal", sample=Q(run, 6000, 60000), sim=Q(run, 500, 6000))
    run.assumptions += ["the pinned schema was frozen from the pinned commit (the .pdsl sources are not in the repository); byte order is per protocol, taken from the scalar fields"]
    return run.finish(RULE_RCV + RULE_TRACE)


FRAMES5 = ["sse.SseBinary", "szse.SzseBinary", "risk.RcBinary", "sample.RootPacket", "bse.BjseBinary"]

RULE_POISON = ("Poisoned reruns (driver+poisonN): the same histories with the library made to fail first - an Encode refused after it wrote something "
               "(unregistered key below a frame, a list too long for its prefix inside a body), a Decode refused (unregistered frame type with body bytes "
               "behind it, a message cut short) - before every history (1) and before every encode/decode of it (2), on objects and buffers of their own; "
               "the collector runs only between histories so that pooled scratch objects survive as they would in an application. ")


def wire_design(run, devs, mode="clauses"):
    """the WireMachine design model (exhaustive over histories), its sensitivity configurations, and direction A"""
    run.wire_model(Q(run, "MCWire_d3.cfg", "MCWire_d5.cfg"), note="every history of <= %s public operations over the frame universe: FramesRight, ObjectReports, HeadDecodes, ChannelShape, AppendOnly" % Q(run, 3, 5))
    for cfg, inv in devs:
        run.wire_model(cfg, expect=inv)
    run.behaviour_replay(Q(run, "MCWire_export3.cfg", "MCWire_export4.cfg"), sample=None, mode=mode)


RULE_RCV = ("Kept receivers: WireMachine with Receivers = TRUE over a universe of its own (one frame type with three registered bodies and none, one "
            "extension owner with two application ids; seed-dependent) - every Decode(T) goes into ONE receiver per type kept for the whole history, "
            "DecodeRefused(T) is a decode the interpreter refuses, after which the caller drops the buffer; exhaustive for <= 5 (thorough 6) operations: "
            "ReceiverIndependent (what a successful decode yields depends on the bytes alone); deviation Receiver_KeepsBody must violate it; every behaviour "
            "of depth 5 with >= 2 decodes (or a sample of them) and random walks of 7 operations (tlc -simulate) are executed on the real types with kept receivers. ")

RULE_WIRE = ("design model: WireMachine.tla, exhaustive over every history of <= 3 (quick) / 5 (thorough) public operations {Encode of each of 11 sample "
             "messages (every frame type with and without body, a frame whose body is refused after it wrote something, a plain message), SetStale, Decode, Next(1|5|one frame), Reset, WriteRaw}; the named "
             "deviations must violate FramesRight. A: every exported behaviour (depth 3; thorough: all ~200,000 of depth 4) is executed on the real "
             "types; for C02 the result, unread bytes and object must equal the model's after every step, for the other properties the recorded "
             "events are judged by the trace specification with that property's clauses. ")


def c04(run):
    wire_design(run, [("MCWire_dev_abspatch.cfg", "FramesRight"), ("MCWire_dev_lentrailer.cfg", "FramesRight"), ("MCWire_dev_scratch.cfg", "FramesRight")])
    frames = ["sse.SseBinary", "szse.SzseBinary", "risk.RcBinary", "sample.RootPacket"]
    run.trace("history", Q(run, 60, 600), types=frames)
    run.trace("encode-any", Q(run, 30, 300), types=frames, seed_off=100)
    run.trace("tables", Q(run, 1, 3), types=frames, seed_off=200)
    run.trace("huge-frames", Q(run, 1, 2), seed_off=300)
    run.trace("history", Q(run, 16, 160), types=frames, seed_off=400, poison=2, small=True)
    run.trace("history", Q(run, 16, 160), types=frames, seed_off=450, poison=1, small=True)
    # run-time registrations: a key of a frame table overridden with another body type - the length is that of the body actually emitted
    run.trace("tables-dynamic", Q(run, 2, 20), seed_off=500, patch_tables=True)
    return run.finish(RULE_WIRE + RULE_TRACE + "huge-frames: bodies of 64 KiB .. 16 MiB (thorough: 40 MiB), judged on the head of the frame and its size. Frames only (the four length-computing frame types x all their registered bodies).")


def c05(run):
    wire_design(run, [("MCWire_dev_overunread.cfg", "FramesRight"), ("MCWire_dev_csumbeforepatch.cfg", "FramesRight")])
    frames = ["sse.SseBinary", "szse.SzseBinary", "sample.RootPacket"]
    run.trace("history", Q(run, 80, 800), types=frames, small=True)
    run.trace("history", Q(run, 4, 40), types=frames, seed_off=50)
    run.trace("encode-any", Q(run, 30, 300), types=frames, seed_off=100, small=True)
    run.trace("tables", Q(run, 1, 3), types=frames, seed_off=200, small=True)
    run.trace("big-frames", Q(run, 4, 12), types=frames, seed_off=300, chunk=30)
    # the services are shared by all encoders: frames encoded by 16 goroutines at once must carry correct checksums too
    run.parallel("history", Q(run, 30, 200), goroutines=16, rounds=2, seed_off=400, types=frames, race_filter="codec/checksum.go", prop_clauses="C05")
    run.trace("history", Q(run, 16, 160), types=frames, seed_off=500, poison=2, small=True)
    run.assumptions += ["the four checksum services are registered (library start-up state)"]
    return run.finish(RULE_WIRE + RULE_TRACE + "Frames only (the three checksummed frame types x all their registered bodies).")


def c06(run):
    wire_design(run, [("MCWire_dev_overunread.cfg", "FramesRight"), ("MCWire_dev_abspatch.cfg", "FramesRight"), ("MCWire_dev_scratch.cfg", "FramesRight")])
    run.trace("history", Q(run, 3, 40))
    FR = ["sse.SseBinary", "szse.SzseBinary", "risk.RcBinary", "sample.RootPacket", "bse.BjseBinary"]
    run.trace("history", Q(run, 40, 400), types=FR, seed_off=100, small=True)
    run.trace("history", Q(run, 6, 60), types=FR, seed_off=150)
    run.trace("big-frames", Q(run, 3, 12), types=FR, seed_off=200, chunk=30)
    run.trace("encode-reuse", Q(run, 4, 20), seed_off=300)
    run.trace("history", Q(run, 20, 200), types=FR, seed_off=400, poison=2, small=True)
    run.trace("history", Q(run, 20, 200), types=FR, seed_off=450, poison=1, small=True)
    run.trace("history", Q(run, 1, 10), seed_off=500, poison=1, small=True)
    # the same histories by 16 goroutines at once, all types mixed (pad bytes, byte orders and checksum algorithms differ between them): what an
    # encode appends may not depend on what other goroutines encode at the same time - judged on the results of the calls only
    run.parallel("history", Q(run, 1, 6), goroutines=16, rounds=Q(run, 3, 6), seed_off=600, race_filter="RESULTS-ONLY", hammer=Q(run, 6, 24), prop_clauses="C06", abort_violates=False, small=True)
    return run.finish(RULE_WIRE + RULE_TRACE + RULE_POISON)


def c07(run):
    wire_design(run, [])
    run.trace("stream", Q(run, 3, 120))
    run.trace("long-lists", Q(run, 1, 2), seed_off=100, chunk=8)
    run.trace("prim-sweep", Q(run, 1, 2), seed_off=200, chunk=600)
    run.trace("stream", Q(run, 1, 20), seed_off=300, poison=2, small=True)
    run.receiver_design(sample=Q(run, 2500, 30000), sim=Q(run, 300, 4000))
    return run.finish(RULE_WIRE + RULE_RCV + RULE_TRACE + RULE_POISON + "long-lists: lists whose count x element size crosses 65,536 followed by a second message.")


def c08(run):
    run.format_theorems(Q(run, 1, 6))
    run.trace("reencode", Q(run, 5, 300))
    run.trace("big-frames", Q(run, 4, 12), types=["sse.SseBinary", "szse.SzseBinary", "risk.RcBinary", "sample.RootPacket", "bse.BjseBinary"], seed_off=300, chunk=30)
    run.trace("neighbours", Q(run, 1, 4), seed_off=500)
    run.trace("reencode", Q(run, 1, 30), seed_off=600, poison=2, small=True)
    path, st = run.child_trace(run.spec_images(Q(run, 2, 40)), "spec-images")
    run.judge(path, st, "spec-images")
    return run.finish(RULE_TRACE + "A: wire images rendered by the specification (Images.tla: the pinned rendering of sample values of all 170 types with every fixed text "
                      "cut to 0/1/3/all bytes) are decoded by the real code and the result re-encoded (half of them after the receive buffer was recycled).")


def c09(run):
    hp, reports = run.spec_hostile(Q(run, 1, 20))
    path, st = run.child_trace(hp, "spec-hostile")
    run.cov["spec_generated_inputs"] = len(reports)
    run.judge(path, st, "spec-hostile")
    path, st = run.child_trace(run.gen_histories("hostile", Q(run, 2, 100)), "hostile")
    run.judge(path, st, "hostile")
    path, st = run.child_trace(run.gen_histories("hostile-prims", 1), "hostile-prims")
    run.judge(path, st, "hostile-prims")
    # refusals by several goroutines at once (unregistered keys of every frame table): the plain build, several processes
    for k in range(Q(run, 4, 12)):
        run.parallel("unknown-storm", 1, goroutines=16, rounds=1, race_filter="RESULTS-ONLY", hammer=Q(run, 6, 24), prop_clauses="C09", race=False, seed_off=900 + k)
    run.assumptions += ["totality of the Go decoders is sampled, not proved", "abort = the child process died under ulimit -v 1.5 GiB; hang = a call did not return after 2 s + 1 us/byte of CPU time of its process (or 30x that in wall-clock time)"]
    return run.finish(RULE_HOSTILE)


def c10(run):
    hp, reports = run.spec_hostile(Q(run, 1, 20))
    path, st = run.child_trace(hp, "spec-hostile")
    run.cov["spec_generated_inputs"] = len(reports)
    run.judge(path, st, "spec-hostile")
    path, st = run.child_trace(run.gen_histories("hostile", Q(run, 2, 100)), "hostile")
    run.judge(path, st, "hostile")
    path, st = run.child_trace(run.gen_histories("hostile-prims", 1), "hostile-prims")
    run.judge(path, st, "hostile-prims")
    # well-formed inputs must stay inside the budget too (no false alarm on large legitimate messages)
    path, st = run.child_trace(run.gen_histories("roundtrip-meter", Q(run, 1, 10)), "roundtrip-meter")
    run.judge(path, st, "roundtrip-meter")
    run.assumptions += ["budget: TotalAlloc delta of one Decode <= 16 KiB + 64 x input bytes (calibrated on the real decoders, DESIGN.md C10)",
                        "a child killed by the address-space limit counts as exceeding the budget"]
    return run.finish(RULE_HOSTILE)


RULE_HOSTILE = ("direction A: TLC derives, from sample values of all 170 types, one hostile input per length/count prefix position of the pinned "
                "layout x {max, max-1, 2^(8w-1), remaining+1} x {cut right after the prefix, 6 more bytes} and states what the decode action "
                "does with it; direction B: seeded mutations of valid encodings (prefix maximisation at every prefix position, truncation, bit "
                "flips, splices, random and constant bytes) and hostile prefixes for every prefixed read primitive x prefix width 1/2/4/8 x byte "
                "order. All are executed on the real decoders in child processes under ulimit -v with a watchdog; TLC validates the recorded "
                "trace (outcome alphabet {ok, err}; TotalAlloc budget). distinct_nontrivial = distinct (type, mutation kind, outcome, leftover "
                "class) tuples. ")


def c11(run):
    run.format_theorems(Q(run, 1, 6))
    run.trace("cut", Q(run, 1, 24), chunk=4000)
    run.trace("prim-cut", Q(run, 1, 8), seed_off=100)
    run.trace("prim-sweep", Q(run, 1, 2), seed_off=200, chunk=600)
    run.trace("cut", Q(run, 1, 8), seed_off=300, chunk=4000, poison=2)
    # texts and lists beyond 64 KiB (behind 32/64-bit prefixes) and just below it (16-bit), cut one byte / a block / 64 KiB short
    run.trace("prim-cut-long", Q(run, 1, 3), seed_off=400, chunk=24)
    return run.finish(RULE_TRACE + RULE_POISON + "Every cut position 0..len-1 of each encoding (all cuts within the first/last 150 bytes plus 100 random ones for encodings over 400 bytes).")


def c12(run):
    run.trace("tables", Q(run, 1, 8))
    run.trace("tables-dynamic", Q(run, 2, 30), seed_off=100, patch_tables=True)
    run.trace("tables", Q(run, 1, 4), seed_off=200, poison=1, small=True)
    run.receiver_design(sample=Q(run, 2500, 30000), sim=Q(run, 300, 4000))
    return run.finish(RULE_RCV + RULE_TRACE + "tables-dynamic: one new key and one overridden key per table registered through the exported Registry...Factory functions in a "
                      "process of its own; the specification then judges that run against the pinned tables patched with the logged registrations. "
                      "All 18 tables x all 226 registered keys x unregistered keys (numeric: every key +-1, byte-swapped, 0, all-ones, 16 random; text: all 512 3-character strings over an 8-symbol alphabet plus prefixes/extensions of registered keys).")


def c15(run):
    run.trace("dirty", Q(run, 3, 150))
    run.trace("dirty", Q(run, 1, 20), seed_off=100, poison=1, small=True)
    run.receiver_design(sample=Q(run, 4000, 60000), sim=Q(run, 500, 6000), full=True)
    return run.finish(RULE_RCV + RULE_TRACE)


def c16(run):
    run.trace("alias", Q(run, 3, 150))
    # caches and intern tables behave differently under contention: the same histories by 16 goroutines at once (judged on the results only)
    run.parallel("alias", Q(run, 1, 10), goroutines=16, rounds=Q(run, 2, 4), seed_off=100, race_filter="RESULTS-ONLY", hammer=Q(run, 6, 24), prop_clauses="C16", abort_violates=False)
    run.assumptions += ["aliasing is detected through observable value change only"]
    return run.finish(RULE_TRACE)


def c17(run):
    run.trace("encode-any", Q(run, 4, 200))
    run.trace("tables", Q(run, 1, 2), seed_off=100)
    run.trace("list-counts", Q(run, 1, 2), seed_off=200, chunk=120)
    run.trace("encode-any", Q(run, 1, 20), seed_off=300, poison=2, small=True)
    # encoders of all protocols at once (shared look-ups on the way): a panic or a process abort is this property's, a race is C20's
    run.parallel("encode-any", Q(run, 2, 20), goroutines=16, rounds=Q(run, 3, 6), seed_off=400, race_filter="RESULTS-ONLY", hammer=Q(run, 6, 24), prop_clauses="C17")
    run.parallel("encode-any", Q(run, 40, 200), goroutines=16, rounds=Q(run, 4, 8), seed_off=500, race_filter="RESULTS-ONLY", hammer=Q(run, 6, 24), prop_clauses="C17", types=FRAMES5, small=True)
    return run.finish(RULE_TRACE + RULE_POISON)


RULE_PRIM = ("direction B at primitive level: the real codec primitives (every generic instantiation named) are called with seeded/"
             "enumerated arguments; TLC judges every call with PWrite/PRead of Prims.tla (the same renderings as the message interpreter); "
             "distinct_nontrivial = distinct (primitive, prefix width, element kind, byte order, width, pad, side, length class, outcome) tuples. ")


RULE_PRIMMODEL = ("design model: PrimMachine.tla, exhaustive over MCPrims!AllCalls (fixed text: widths 0..3 x 6 pad bytes x both sides x all texts of length "
                  "<= 4 over {00,41,C3,FF} plus pad-on-either-side shapes; scalars and lists: 4 element kinds x prefix widths 1/2/4/8 x both byte orders x "
                  "0..2 non-palindromic elements; prefixed text and text lists; 8-bit prefixes at 254..257) with the invariants ExactWidth, ReadBack, "
                  "PairRelation, WrapRefused, SpareIgnored, each call on a fresh buffer and on a recycled one (320 stale bytes in the spare capacity behind the buffer's end); "
                  "the deviations BreakPair (C03), PadFromSpare (C13), RoomySkipsCheck (C18) must violate PairRelation / ReadBack / WrapRefused. A: every case (35,184) is executed on the real primitives. ")


def c03(run):
    run.prim_model_replay()
    run.model("MCPrims.tla", "MCPrims_dev_pair.cfg", expect="PairRelation")
    run.trace("prim-pairs", Q(run, 1, 6))
    run.trace("roundtrip-canon", Q(run, 3, 40), types=[t for t in all_types() if t.split(".")[0] in ("bse", "sample")], seed_off=100)
    run.trace("roundtrip-canon", Q(run, 1, 10), seed_off=200)
    run.trace("roundtrip-canon", Q(run, 1, 10), seed_off=300, poison=2, small=True)
    run.trace("roundtrip-canon", Q(run, 1, 10), seed_off=350, poison=1, small=True)   # another order of the refused calls (what a pool hands out depends on it)
    run.trace("roundtrip-canon", Q(run, 1, 10), seed_off=370, poison=1, small=True)
    run.trace("registry-frames", Q(run, 10, 200), types=["sse.SseBinary", "szse.SzseBinary", "sample.RootPacket"], seed_off=400)
    # every length / count 0..1100 of every prefixed primitive (incl. the length of a text-list element), both orders
    run.trace("prim-sweep", Q(run, 1, 2), seed_off=500, chunk=1500, extra_env={"VERIF_SWEEP_LIGHT": "1"})
    # the same pairs by 16 goroutines at once, each on its own buffers (a fallback path taken only under contention): results only
    run.parallel("prim-pairs", Q(run, 1, 4), goroutines=16, rounds=Q(run, 3, 6), seed_off=600, race_filter="RESULTS-ONLY", hammer=Q(run, 6, 24), prop_clauses="C03", abort_violates=False, small=True)
    return run.finish(RULE_PRIMMODEL + RULE_PRIM + RULE_TRACE + RULE_POISON)


def c13(run):
    run.prim_model_replay()
    run.model("MCPrims.tla", "MCPrims_dev_padspare.cfg", expect="ReadBack")
    run.trace("prim-fixed", Q(run, 2, 100))
    run.trace("prim-fixed-sweep", 1, seed_off=100)
    run.trace("prim-fixed-counts", Q(run, 1, 2), seed_off=200, chunk=40)
    # message level: every fixed-width text field of all 170 types (short, full, over-long, over-long well-formed UTF-8 with a character
    # lying across the end of the field): the rendering may not differ from the pinned one inside a fixed-width text field
    run.trace("roundtrip-wild", Q(run, 6, 100), seed_off=400, small=True)
    # the same calls by 16 goroutines at once, each on its own buffer, pad bytes and sides mixed: judged on the results of the calls only
    run.parallel("prim-fixed", Q(run, 2, 20), goroutines=16, rounds=Q(run, 3, 6), seed_off=300, race_filter="RESULTS-ONLY", hammer=Q(run, 6, 24), prop_clauses="C13", abort_violates=False)
    return run.finish(RULE_PRIMMODEL + RULE_PRIM + "Widths 0..5,10,16,200; pads 00,20,30,80,E9,FF and a random one; both sides; texts of length 0..N+2 over {pad,00,20,41,C3,A9,FF,30} and random bytes; lists of widths 1,3,8,10,16 with counts 0..64, around every multiple of 128 up to 2048, the multiples of 100 up to 2000, 4096, 8192 (thorough: up to 65535), written over stale spare capacity.")


def c14(run):
    run.trace("calc", Q(run, 1, 30), chunk=3000)
    run.trace("calc-giant", Q(run, 1, 2), seed_off=100)
    run.trace("calc-reuse", Q(run, 1, 6), seed_off=150)
    # the services are shared objects: the same calls by 16 goroutines at once, each on its own buffer (judged on the results only)
    run.parallel("calc", 1, goroutines=16, rounds=Q(run, 2, 6), seed_off=300, race_filter="RESULTS-ONLY", hammer=Q(run, 6, 24), prop_clauses="C14", abort_violates=False)
    if run.tier == "thorough":
        run.trace("calc-exhaustive2", 1, seed_off=200, chunk=20000)
    return run.finish(RULE_PRIM + "All strings of <= 1 byte, 2-byte strings over a 32-symbol boundary alphabet (all 65,536 in the thorough tier), 3-byte strings over 8 symbols, "
                      "random strings up to 4 KB, run-length described inputs up to 33 MB for the sums (Sum8Runs) and 70-300 KB for the CRCs.")


def c18(run):
    run.prim_model_replay()
    run.model("MCPrims.tla", "MCPrims_dev_roomy.cfg", expect="WrapRefused")
    run.trace("prim-limits", Q(run, 1, 2), chunk=40)
    run.trace("msg-limits", Q(run, 1, 2), seed_off=100, chunk=6)
    return run.finish(RULE_PRIMMODEL + RULE_PRIM + "Lengths 0,1,254..257,300,511,512 behind 8-bit prefixes and 65535,65536 (thorough: 65534..65537,131072) behind 16-bit prefixes, every prefixed writer, both byte orders; message level: the pinned fields with 16-bit prefixes.",
                      )


def c19(run):
    # design model: lock discipline and linearizability, exhaustively within small constants
    run.model("MCRegistry.tla", "MCRegistry_lin.cfg", note="2 goroutines x 2 calls, 2 names, 3 services: Linearizable with the history in the state")
    if run.tier == "thorough":
        run.model("MCRegistry.tla", "MCRegistry_lin_3x1.cfg", note="3 goroutines x 1 call: Linearizable with the history in the state")
    run.model("MCRegistry.tla", "MCRegistry_locks.cfg", note="3 goroutines x 2 calls: MutualExclusion, NoRace, RightName, OneWinner, WinnerSticks (VIEW hides the history)")
    # the same safety invariants for ANY number of goroutines / names / services / calls: TLAPS proof of an inductive invariant
    run.proof("RegistryProofs.tla", ["ChecksumRegistry.tla"], note="Spec => [](MutualExclusion /\\ RightName /\\ OneWinner /\\ WinnerSticks /\\ NoRace) and "
              "[][the map changes only in a step of the write-lock holder with no reader inside]_vars, unbounded parameters, Deviations = {}")
    # sensitivity: each named deviation must violate its invariant
    run.model("MCRegistry.tla", "MCRegistry_dev_split.cfg", expect="OneWinner")
    run.model("MCRegistry.tla", "MCRegistry_dev_split_lin.cfg", expect="Linearizable")
    run.model("MCRegistry.tla", "MCRegistry_dev_getnolock.cfg", expect="NoRace")
    run.model("MCRegistry.tla", "MCRegistry_dev_readlock.cfg", expect="NoRace")
    # a Clear that is not atomic over the names: scenario of 3 goroutines x 2 calls (one registers A and B, one clears, one looks up)
    run.model("MCRegistry.tla", "MCRegistry_walk_ok.cfg", note="3 goroutines x 2 calls, roles fixed (register / clear / look up): Linearizable")
    run.model("MCRegistry.tla", "MCRegistry_dev_clearpername.cfg", expect="Linearizable")
    # a design variant (RegistryMemo.tla): a one-entry memo served without the lock. Stored under the read lock it is linearizable;
    # stored after the lock is released (a gap behind the last hook point) it must violate Linearizable
    run.model("MCRegistryMemo.tla", "MCRegistryMemo_ok.cfg", note="memo variant, stored under the lock: Linearizable, MemoCoherent (2 goroutines x 2 calls)")
    run.model("MCRegistryMemo.tla", "MCRegistryMemo_gap.cfg", expect="Linearizable")
    # A: TLC's schedules forced on real goroutines through the gate hook
    run.sched_replay("RegistrySched_3x1.cfg", sample=Q(run, 3000, None), note="3 goroutines x 1 call")
    if run.tier == "thorough":
        run.sched_replay("RegistrySched_2x2.cfg", sample=40000, note="2 goroutines x 2 calls")
    # B: hook-free stress under the race detector, linearizability decided by TLC
    run.lin_stress(Q(run, 300, 2000), 4, 4)
    run.lin_stress(Q(run, 100, 600), 8, 3, names=3, seed_off=1)
    # one hot name: a writer registering instance 1 / removing / registering instance 2 ..., five readers looking it up in every round
    run.lin_stress(Q(run, 400, 3000), 6, 8, names=1, seed_off=3, profile="hot")
    # one name, no Remove at all: the writer registers instance 1 / clears / registers instance 2 / clears ..., five readers
    run.lin_stress(Q(run, 500, 3000), 6, 8, names=1, seed_off=5, profile="clearhot")
    # four names registered, then ONE Clear while five goroutines look all names up in a burst, each in its own order (a Clear that is not
    # atomic over the names shows as a miss followed by a hit)
    run.lin_stress(Q(run, 300, 2000), 6, 9, names=4, seed_off=7, profile="walk")
    if run.tier == "thorough":
        run.lin_stress(300, 12, 3, names=4, seed_off=2)
    run.assumptions += ["interleavings on the real code are exhaustive only for the gated schedules TLC generates; the stress part is probabilistic",
                        "the race detector and the Go memory model are trusted as sensors",
                        "a schedule in which the model lets a goroutine in but the real lock does not (stricter locking) is inconclusive, not a violation"]
    return run.finish("design model: ChecksumRegistry.tla at lock granularity (Call/Acquire/Finish), exhaustive for the stated constants, plus five deviation "
                      "configurations that must fail (SplitCheckInsert x2, GetWithoutLock, ReadLockForWrite, ClearPerName). A: every behaviour of the deterministic restriction RegistrySched (eager acquisition, at most one blocked "
                      "goroutine) is forced on real goroutines through the ':locked' hook of the verif build; blocked goroutines must not enter their critical "
                      "section and every call must return the model's result. B: hook-free stress (4-12 goroutines) built with -race; every history is "
                      "checked for linearizability by TLC (TraceRegistry.tla, internal linearization step). distinct_nontrivial = distinct schedules forced "
                      "+ recorded histories in which calls really overlapped.")


def c20(run):
    run.model("MCParallel.tla", "MCParallel_ok.cfg", note="3 processes x 3 operations, side process toggling an unrelated registry name: NonInterference")
    run.model("MCParallel.tla", "MCParallel_dev_scratch.cfg", expect="NonInterference")
    run.model("MCParallel.tla", "MCParallel_dev_clear.cfg", expect="NonInterference")
    run.parallel("roundtrip-canon", Q(run, 2, 12), goroutines=16, rounds=Q(run, 1, 3))
    run.parallel("history", Q(run, 40, 300), goroutines=16, rounds=Q(run, 2, 4), seed_off=100, small=True,
                 types=["sse.SseBinary", "szse.SzseBinary", "risk.RcBinary", "sample.RootPacket", "bse.BjseBinary"])
    run.parallel("stream", Q(run, 1, 6), goroutines=8, rounds=1, seed_off=200)
    run.parallel("encode-reuse", Q(run, 4, 12), goroutines=16, rounds=1, seed_off=300)
    run.parallel("trim-sides", Q(run, 8, 40), goroutines=16, rounds=Q(run, 2, 4), seed_off=400)
    run.parallel("roundtrip-canon", Q(run, 1, 6), goroutines=16, rounds=Q(run, 2, 4), seed_off=500, poison=2, small=True)
    # first look-ups after a registration: before every round the application registers again, with its pinned type, one key of every
    # discriminator table (no goroutine is running: a start-up step), then 16 goroutines start at once; only rounds that differ are logged
    run.parallel("roundtrip-canon", 3, goroutines=16, rounds=Q(run, 800, 5000), seed_off=600, small=True, rereg=True, types=FRAMES5)
    run.assumptions += ["hidden shared state is found by the race detector and by results that differ from the solo run under contention: with high but not certain probability",
                        "discriminator tables and checksum services are only read after start-up (the side goroutines register/remove unrelated names only)"]
    return run.finish("design model: Parallel.tla (NonInterference; deviations SharedScratch and ClearOnSide must fail). B: the drivers' histories (all 170 types, "
                      "frames with every registered body, streams) are run alone and then by 8-16 goroutines at once, each on its own objects and buffers, "
                      "with two side goroutines doing Get/Registry/Remove on unrelated names, built with -race (the parallel phase runs first, in a fresh "
                      "process); TLC steps through every event with the sequential trace specification and requires every parallel event to equal its twin "
                      "of the solo run (result, unread bytes, object). A defect that shows equally in the solo run is not C20's. distinct_nontrivial = distinct "
                      "(type, operation, outcome) triples among the parallel events.")


def all_types():
    return sorted(json.load(open(SCHEMA))["types"].keys())


CHECKS = {"C19": c19, "C20": c20, "C03": c03, "C09": c09, "C10": c10, "C13": c13, "C14": c14, "C18": c18, "C01": c01, "C02": c02, "C04": c04, "C05": c05, "C06": c06, "C07": c07, "C08": c08, "C11": c11, "C12": c12,
          "C15": c15, "C16": c16, "C17": c17}


def replay(run, path):
    """re-execute a replay file on the current tree and judge it again"""
    rp = json.load(open(path))
    if rp.get("kind") == "trace":
        vd = run.build()
        out = os.path.join(run.scratch, "rerun.ndjson")
        p = subprocess.run([vd, "rerun", "-in", path, "-out", out], capture_output=True, text=True, env=dict(os.environ, VERIF_SCHEMA=SCHEMA))
        if p.returncode != 0:
            raise Broken("rerun failed: " + p.stderr[-2000:])
        spec = rp.get("tracespec", "TraceWire.tla")
        res = validate_trace(out, rp["property"], run.scratch, spec, spec.replace(".tla", ".cfg"))
        mine = [b for b in res["bad"] if b["clause"].split(".")[0] == rp["property"]]
        for b in mine:
            log("  rejected: event %d %s %s deviation=%s" % (b["id"], b["clause"], b["t"], b["dev"]))
        if mine:
            log("VIOLATION property=%s replay=%s" % (rp["property"], path))
            return 1
        log("replay %s: accepted by the specification on the current tree" % path)
        return 0
    if rp.get("kind") in ("primcase", "behaviour"):
        vd = run.build()
        inp = os.path.join(run.scratch, "one.ndjson")
        if rp["kind"] == "primcase":
            open(inp, "w").write(json.dumps(rp["case"]) + "\n")
            cmd = [vd, "replay-prims", "-in", inp, "-out", inp + ".res"]
        else:
            vals = os.path.join(run.scratch, "vals.ndjson")
            open(vals, "w").write("\n".join(json.dumps(v) for v in rp["values"]) + "\n")
            open(inp, "w").write(json.dumps(rp["behaviour"]) + "\n")
            cmd = [vd, "replay", "-values", vals, "-in", inp, "-out", inp + ".res"]
        p = subprocess.run(cmd, capture_output=True, text=True, env=dict(os.environ, VERIF_SCHEMA=SCHEMA))
        if p.returncode != 0:
            raise Broken("replay failed: " + p.stderr[-1500:])
        r = json.loads(open(inp + ".res").read())
        log("  %s: %s %s" % (rp["kind"], r["verdict"], r.get("why", "")))
        if r["verdict"] != "ok":
            log("VIOLATION property=%s replay=%s" % (rp["property"], path))
            return 1
        return 0
    if rp.get("kind") == "schedule":
        vd = run.build()
        inp = os.path.join(run.scratch, "one-sched.ndjson")
        open(inp, "w").write(json.dumps(rp["schedule"]) + "\n")
        bad = 0
        for attempt in range(3):
            p = subprocess.run([vd, "conc", "sched", "-in", inp, "-out", inp + ".res"], capture_output=True, text=True)
            if p.returncode != 0:
                from vcheck import library_fault
                if library_fault(p.stderr):
                    log("  forced schedule, attempt %d: the process crashed: %s" % (attempt + 1, library_fault(p.stderr)))
                    bad += 1
                    continue
                raise Broken("conc sched failed: " + p.stderr[-1500:])
            r = json.loads(open(inp + ".res").read())
            log("  forced schedule, attempt %d: %s %s" % (attempt + 1, r["verdict"], r["why"]))
            if r["verdict"] in ("diverged", "mismatch") and r.get("history"):
                from vcheck import run_tlc, tlc_prints
                tp = os.path.join(run.scratch, "sched-history.ndjson")
                open(tp, "w").write("\n".join(json.dumps(e) for e in r["history"]) + "\n")
                t = run_tlc("TraceRegistry.tla", "TraceRegistry.cfg", run.scratch, env={"VERIF_TRACE": tp}, workers=1)
                reached, total = [int(x) for x in tlc_prints(t["out"], "HIGHWATER")[-1].split(",")]
                log("    observed history linearizable: %s" % (reached == total + 1))
                bad += reached != total + 1
        if bad:
            log("VIOLATION property=%s replay=%s" % (rp["property"], path))
            return 1
        return 0
    if rp.get("kind") == "lin-history":
        tp = os.path.join(run.scratch, "one-history.ndjson")
        open(tp, "w").write("\n".join(json.dumps(e) for e in rp["events"]) + "\n")
        from vcheck import run_tlc, tlc_prints
        r = run_tlc("TraceRegistry.tla", "TraceRegistry.cfg", run.scratch, env={"VERIF_TRACE": tp}, workers=1)
        hw = tlc_prints(r["out"], "HIGHWATER")
        reached, total = [int(x) for x in hw[-1].split(",")]
        if reached != total + 1:
            log("  the recorded history has no linearization: TLC is stuck at event %d of %d" % (reached, total))
            log("VIOLATION property=%s replay=%s" % (rp["property"], path))
            return 1
        log("  the recorded history is linearizable")
        return 0
    if rp.get("kind") == "race":
        vd = run.build(race=True)
        cmd = [vd] + rp["cmd"].split()
        for i, a in enumerate(cmd):
            if a == "-out":
                cmd[i + 1] = os.path.join(run.scratch, "rerun.ndjson")
            if a == "-in" and rp.get("histories"):
                hp = os.path.join(run.scratch, "rerun-histories.ndjson")
                open(hp, "w").write("\n".join(rp["histories"]) + "\n")
                cmd[i + 1] = hp
        p = subprocess.run(cmd, capture_output=True, text=True, env=dict(os.environ, GORACE="halt_on_error=0 exitcode=66", VERIF_SCHEMA=SCHEMA))
        if "DATA RACE" in p.stderr or p.returncode == 66:
            log(p.stderr[:1500])
            log("VIOLATION property=%s replay=%s" % (rp["property"], path))
            return 1
        log("  no data race reported on the current tree")
        return 0
    raise Broken("unknown replay kind %r" % rp.get("kind"))
