import sys, os, json, re, subprocess, shutil, tempfile, time, argparse, concurrent.futures, hashlib

VERIF = os.path.abspath(os.path.join(os.path.dirname(os.path.abspath(__file__)), ".."))
REPO = os.environ.get("VERIF_REPO", "/repo")
SPEC = os.path.join(VERIF, "spec")
SCHEMA = os.path.join(VERIF, "schema", "pinned.json")
TLA_CP = "/opt/veriftools/tla/tla2tools.jar:/opt/veriftools/tla/CommunityModules-deps.jar"
NCPU = os.cpu_count() or 4


class Broken(Exception):
    """the check itself could not do its job (never a verdict about the code)"""


_T0 = time.time()


def log(*a):
    # lines the interface prescribes (VIOLATION / KNOWN-FINDING) start in column 0; progress lines carry the elapsed time
    if a and isinstance(a[0], str) and a[0].startswith("  "):
        print("  [%4ds]" % (time.time() - _T0) + a[0][1:], *a[1:], flush=True)
    else:
        print(*a, flush=True)


# ------------------------------------------------------------------------------------------
# building the harness from /repo's current working tree

def build_vdrive(scratch, race=False):
    h = os.path.join(VERIF, "harness")
    out = os.path.join(scratch, "vdrive-race" if race else "vdrive")
    env = dict(os.environ, GOFLAGS="-mod=mod", GOPROXY="off")
    env.pop("GOSUMDB", None)
    env.pop("GOTOOLCHAIN", None)
    # a private copy of the harness module so that concurrent checks do not race on go.sum
    hc = os.path.join(scratch, "harness")
    if not os.path.isdir(hc):
        shutil.copytree(h, hc, ignore=shutil.ignore_patterns("go.sum"))
        shutil.copy(os.path.join(REPO, "go.sum"), os.path.join(hc, "go.sum"))
        gm = open(os.path.join(hc, "go.mod")).read().replace("=> /repo", "=> " + REPO)
        open(os.path.join(hc, "go.mod"), "w").write(gm)
    cmd = ["go", "build", "-tags", "verif"] + (["-race"] if race else []) + ["-o", out, "./cmd/vdrive"]
    t0 = time.time()
    p = subprocess.run(cmd, cwd=hc, env=env, capture_output=True, text=True)
    if p.returncode != 0:
        raise Broken("harness does not build against %s:\n%s" % (REPO, p.stderr[-4000:]))
    log("  built %s in %.1fs" % (os.path.basename(out), time.time() - t0))
    return out


# ------------------------------------------------------------------------------------------
# TLC

def run_tlc(spec, cfg, scratch, env=None, workers=1, timeout=3600, extra=None, tag=None, heap=None):
    """runs TLC on a private copy of the spec directory; returns parsed result"""
    tag = tag or (os.path.splitext(spec)[0] + "-" + hashlib.md5((cfg + json.dumps(env or {}, sort_keys=True)).encode()).hexdigest()[:8])
    d = os.path.join(scratch, "tlc-" + tag)
    os.makedirs(d, exist_ok=True)
    for f in os.listdir(SPEC):
        if f.endswith(".tla") or f.endswith(".cfg"):
            shutil.copy(os.path.join(SPEC, f), d)
    e = dict(os.environ, VERIF_SCHEMA=SCHEMA)
    e.update(env or {})
    cmd = ["java", "-Xss1g"] + (["-Xmx" + heap] if heap else []) + ["-XX:+UseParallelGC", "-cp", TLA_CP, "tlc2.TLC", "-noGenerateSpecTE",
           "-workers", str(workers), "-metadir", os.path.join(d, "meta"), "-config", cfg] + (extra or []) + [spec]
    t0 = time.time()
    try:
        p = subprocess.run(cmd, cwd=d, env=e, capture_output=True, text=True, timeout=timeout)
    except subprocess.TimeoutExpired:
        raise Broken("TLC timed out after %ds on %s/%s" % (timeout, spec, cfg))
    out = p.stdout + p.stderr
    res = {"spec": spec, "cfg": cfg, "cmd": " ".join(cmd[:1] + cmd[2:]), "wall_s": round(time.time() - t0, 2), "out": out, "rc": p.returncode,
           "generated": 0, "distinct": 0, "depth": 0, "violated": None, "error": None, "env": env or {}}
    m = re.findall(r"(\d+) states generated, (\d+) distinct states found", out)
    if m:
        res["generated"], res["distinct"] = int(m[-1][0]), int(m[-1][1])
    m = re.search(r"The depth of the complete state graph search is (\d+)", out)
    if m:
        res["depth"] = int(m.group(1))
    m = re.search(r"Invariant (\w+) is violated", out)
    if m:
        res["violated"] = m.group(1)
    m = re.search(r"Action property (\w+) is violated|Temporal properties were violated|property (\w+) is violated", out)
    if m and not res["violated"]:
        res["violated"] = m.group(1) or m.group(2) or "temporal"
    if "Error:" in out and not res["violated"]:
        i = out.index("Error:")
        res["error"] = out[i:i + 1500]
    res["completed"] = "Model checking completed. No error has been found." in out or (res["violated"] is not None)
    shutil.rmtree(os.path.join(d, "meta"), ignore_errors=True)
    return res


def tlc_prints(out, key):
    """all PrintT(<<key, ...>>) lines as parsed python lists"""
    res = []
    for m in re.finditer(r'^<<"%s", (.*)>>$' % re.escape(key), out, re.M):
        res.append(m.group(1))
    return res


def parse_tla_string(s):
    # a TLA+ string literal as printed by TLC: "...", with \" and \\ escapes
    return json.loads(s)


# ------------------------------------------------------------------------------------------
# direction B: record on the real code, validate with TLC

def record(vdrive, driver, seed, n, scratch, types=None, extra_env=None, small=False, poison=0):
    out = os.path.join(scratch, "trace-%s-%d%s%s.ndjson" % (driver, seed, "-s" if small else "", "-p%d" % poison if poison else ""))
    stats = out + ".stats.json"
    cmd = [vdrive, "record", "-driver", driver, "-seed", str(seed), "-n", str(n), "-out", out, "-stats", stats]
    if types:
        cmd += ["-types", ",".join(types)]
    if small:
        cmd += ["-small"]
    if poison:
        cmd += ["-poison", str(poison)]
    t0 = time.time()
    env = dict(os.environ, VERIF_SCHEMA=SCHEMA, **(extra_env or {}))
    if poison:
        # one P: whatever a refused call left in a sync.Pool is handed to the very next call, as it would be on a quiet connection goroutine
        env["GOMAXPROCS"] = "1"
    p = subprocess.run(cmd, capture_output=True, text=True, env=env)
    if p.returncode != 0:
        raise Broken("driver %s failed (rc=%d): %s" % (driver, p.returncode, (p.stderr or p.stdout)[-3000:]))
    st = json.load(open(stats))
    st["wall_s"] = round(time.time() - t0, 2)
    if st["events"] == 0:
        raise Broken("driver %s produced no events" % driver)
    return out, st


def split_trace(path, max_events, scratch):
    """split an ndjson trace at history boundaries into chunks of about max_events events"""
    chunks, cur, curh, n = [], [], None, 0
    with open(path) as f:
        for line in f:
            m = re.search(r'"h":(\d+)\}\s*$', line)
            h = m.group(1) if m else None
            if cur and h != curh and len(cur) >= max_events:
                chunks.append(cur)
                cur = []
            cur.append(line)
            curh = h
            n += 1
    if cur:
        chunks.append(cur)
    paths = []
    for i, c in enumerate(chunks):
        p = "%s.part%03d" % (path, i)
        with open(p, "w") as f:
            f.writelines(c)
        paths.append((p, len(c)))
    return paths


def validate_chunk(args):
    tracespec, cfg, path, nev, prop, scratch, idx, schema = args
    env = {"VERIF_TRACE": path, "VERIF_PROP": prop}
    if schema:
        env["VERIF_SCHEMA"] = schema
    r = run_tlc(tracespec, cfg, scratch, env=env, workers=1, timeout=3600,
                tag="%s-%s-%s-%03d" % (os.path.splitext(tracespec)[0], prop, os.path.basename(path)[:40], idx))
    if r["error"] or not r["completed"] or r["violated"]:
        raise Broken("trace validation did not complete on %s:\n%s" % (path, (r["error"] or r["out"][-2500:])))
    v = tlc_prints(r["out"], "VERDICT")
    if len(v) != 1:
        raise Broken("no verdict line from TLC for %s:\n%s" % (path, r["out"][-2000:]))
    m = re.match(r'(\d+), (".*")$', v[0], re.S)
    nchk = int(m.group(1))
    bad = json.loads(parse_tla_string(m.group(2)))
    if nchk != nev:
        raise Broken("TLC consumed %d of %d events of %s" % (nchk, nev, path))
    return {"nchk": nchk, "bad": bad, "generated": r["generated"], "distinct": r["distinct"], "wall_s": r["wall_s"], "cmd": r["cmd"]}


def validate_trace(path, prop, scratch, tracespec="TraceWire.tla", cfg="TraceWire.cfg", chunk=1500, schema=None):
    parts = split_trace(path, chunk, scratch)
    jobs = [(tracespec, cfg, p, n, prop, scratch, i, schema) for i, (p, n) in enumerate(parts)]
    res = {"nchk": 0, "bad": [], "generated": 0, "distinct": 0, "chunks": len(jobs), "cmd": ""}
    with concurrent.futures.ThreadPoolExecutor(max_workers=max(1, NCPU // 2)) as ex:
        for r in ex.map(validate_chunk, jobs):
            res["nchk"] += r["nchk"]
            res["bad"] += r["bad"]
            res["generated"] += r["generated"]
            res["distinct"] += r["distinct"]
            res["cmd"] = r["cmd"]
    for p, _ in parts:
        os.remove(p)
    return res


def history_events(path, h):
    out = []
    with open(path) as f:
        for line in f:
            if re.search(r'"h":%d\}\s*$' % h, line):
                out.append(json.loads(line))
    return out


# ------------------------------------------------------------------------------------------
# ledger of known findings

def load_ledger():
    p = os.path.join(VERIF, "known_findings.json")
    if not os.path.exists(p):
        return []
    return json.load(open(p))["findings"]


def ledger_match(ledger, prop, dev, site):
    for f in ledger:
        if f.get("status") != "open":
            continue
        if f["property"] == prop and f["deviation"] == dev and (f.get("site") in ("*", site) or site in f.get("sites", [])):
            return f
    return None


# ------------------------------------------------------------------------------------------

class Run:
    """one invocation of a check: accumulates coverage, findings and violations"""

    def __init__(self, prop, tier, seed):
        self.prop, self.tier, self.seed = prop, tier, seed
        self.t0 = time.time()
        self.scratch = tempfile.mkdtemp(prefix="vcheck-%s-" % prop, dir=os.environ.get("VERIF_SCRATCH", "/tmp"))
        self.cov = {"states": 0, "transitions": 0, "traces_validated_against_impl": 0, "evaluations": 0, "distinct_nontrivial": 0,
                    "samples": [], "models": [], "trace_runs": [], "replay_runs": [], "rule": "", "exhaustive": False}
        self.assumptions = []
        self.violations = []  # dicts {what, replay}
        self.known = {}  # key -> count
        self.ledger = load_ledger()
        self.vdrive = None
        self.nontrivial = set()

    def build(self, race=False):
        if race:
            return build_vdrive(self.scratch, race=True)
        if not self.vdrive:
            self.vdrive = build_vdrive(self.scratch)
        return self.vdrive

    def cleanup(self):
        shutil.rmtree(self.scratch, ignore_errors=True)

    # -- models ----------------------------------------------------------------------------
    def model(self, spec, cfg, expect="ok", workers=None, env=None, timeout=3600, note="", extra=None, heap=None):
        workers = workers or NCPU
        # a model that normally takes seconds must not be able to stall the check: bounded wait, one retry with fewer workers
        first = min(timeout, 900 if self.tier == "quick" else 3000)
        try:
            r = run_tlc(spec, cfg, self.scratch, env=env, workers=workers, timeout=first, extra=extra, heap=heap)
        except Broken as e:
            if "timed out" not in str(e):
                raise
            log("  model %s/%s did not finish in %ds, retrying once with %d workers" % (spec, cfg, first, max(1, workers // 2)))
            r = run_tlc(spec, cfg, self.scratch, env=env, workers=max(1, workers // 2), timeout=timeout, extra=extra, heap=heap, tag="retry-" + cfg)
        entry = {"spec": spec, "cfg": cfg, "expect": expect, "generated": r["generated"], "distinct": r["distinct"], "depth": r["depth"],
                 "violated": r["violated"], "wall_s": r["wall_s"], "note": note, "cmd": r["cmd"]}
        self.cov["models"].append(entry)
        if r["error"]:
            raise Broken("TLC error in %s/%s:\n%s" % (spec, cfg, r["error"]))
        if expect == "sim":
            # random walks (tlc -simulate): only used to generate behaviours; an invariant failing on the way is still a spec-level failure
            if r["violated"]:
                raise Broken("design model %s/%s (simulation) violates %s" % (spec, cfg, r["violated"]))
        elif expect == "ok":
            if r["violated"] or not r["completed"]:
                raise Broken("design model %s/%s does not satisfy its properties (spec-level failure, not a verdict on the code): %s\n%s"
                             % (spec, cfg, r["violated"], r["out"][-3000:]))
            self.cov["states"] += r["distinct"]
            self.cov["transitions"] += r["generated"]
        else:
            # sensitivity configuration: a named deviation is switched on and the invariant MUST fail
            if r["violated"] != expect:
                raise Broken("sensitivity model %s/%s: expected %s to be violated, got %s (vacuous invariant?)\n%s"
                             % (spec, cfg, expect, r["violated"], r["out"][-2000:]))
        log("  model %-22s %-28s %9d distinct %10d generated  %6.1fs  %s" % (spec, cfg, r["distinct"], r["generated"], r["wall_s"],
                                                                           "ok" if expect in ("ok", "sim") else "violates " + expect + " as required"))
        return r

    # -- proofs ----------------------------------------------------------------------------
    def proof(self, module, deps, note="", timeout=900):
        """TLAPS: every obligation of `module` must be proved (a spec-level statement for unbounded parameters). A failure is a
        failure of the specification work (CHECK-BROKEN), never a verdict on the code."""
        d = os.path.join(self.scratch, "tlapm-" + os.path.splitext(module)[0])
        shutil.rmtree(d, ignore_errors=True)
        os.makedirs(d)
        for f in [module] + deps:
            shutil.copy(os.path.join(SPEC, f), d)
        t0 = time.time()
        try:
            pr = subprocess.run(["tlapm", "--threads", str(NCPU), "--cleanfp", module], cwd=d, capture_output=True, text=True, timeout=timeout)
        except subprocess.TimeoutExpired:
            raise Broken("tlapm timed out after %ds on %s" % (timeout, module))
        out = pr.stdout + pr.stderr
        m = re.search(r"All (\d+) obligations? proved", out)
        if not m or pr.returncode != 0:
            raise Broken("tlapm could not prove %s (spec-level failure, not a verdict on the code):\n%s" % (module, out[-2500:]))
        self.cov.setdefault("proofs", []).append({"module": module, "obligations_proved": int(m.group(1)), "wall_s": round(time.time() - t0, 1),
                                                  "cmd": "tlapm --threads %d --cleanfp %s" % (NCPU, module), "note": note})
        log("  proof %-22s %d obligations proved by TLAPS  %5.1fs" % (module, int(m.group(1)), time.time() - t0))
        shutil.rmtree(d, ignore_errors=True)

    # -- traces ----------------------------------------------------------------------------
    def trace(self, driver, n, tracespec="TraceWire.tla", cfg="TraceWire.cfg", types=None, seed_off=0, chunk=1500, prop=None, extra_env=None, small=False,
              patch_tables=False, poison=0):
        """poison: the same driver with the library made to fail first (1: a refused call before every history; 2: also before every
        encode/decode of the history) - what an error path leaves behind must not reach the ordinary history (harness/vh/poison.go)"""
        vd = self.build()
        seed = self.seed + seed_off
        path, st = record(vd, driver, seed, n, self.scratch, types=types, extra_env=extra_env, small=small, poison=poison)
        if poison:
            driver = "%s+poison%d" % (driver, poison)
        schema = None
        if patch_tables:
            # the run registered discriminators at run time: judge it against the tables as the application changed them
            sch = json.load(open(SCHEMA))
            nreg = 0
            for line in open(path):
                if '"op":"regfactory"' not in line:
                    continue
                e = json.loads(line)
                ents = sch["tables"][e["from"]]["entries"]
                ents[:] = [x for x in ents if x["key"] != e["bytes"]]
                ents.append({"key": e["bytes"], "type": e["t"], "lit": "dynamic"})
                nreg += 1
            if nreg == 0:
                raise Broken("driver %s logged no registration" % driver)
            schema = os.path.join(self.scratch, "schema-patched-%s.json" % driver)
            json.dump(sch, open(schema, "w"))
            self.cov["dynamic_registrations"] = nreg
        res = validate_trace(path, prop or self.prop, self.scratch, tracespec, cfg, chunk, schema=schema)
        if res["nchk"] != st["events"]:
            raise Broken("TLC validated %d events, recorder wrote %d" % (res["nchk"], st["events"]))
        self.cov["traces_validated_against_impl"] += st["histories"]
        self.cov["evaluations"] += st["events"]
        self.cov["states"] += res["distinct"]
        self.cov["transitions"] += res["generated"]
        for k in st.get("class_keys", []):
            self.nontrivial.add(driver + ":" + k)
        self.cov["trace_runs"].append({"driver": driver, "seed": seed, "n": n, "histories": st["histories"], "events": st["events"],
                                       "types": st["types"], "classes": st["classes"], "res_counts": st["res_counts"],
                                       "tlc_states": res["distinct"], "rejected": len(res["bad"]), "cmd": res["cmd"]})
        self._nontriv_add(driver, st)
        if len(self.cov["samples"]) < 4:
            for s in st.get("samples", [])[:2]:
                self.cov["samples"].append({"driver": driver, "event": compact_event(s)})
        log("  trace %-18s seed=%d  %6d histories %7d events %4d types  -> TLC rejected %d" %
            (driver, seed, st["histories"], st["events"], st["types"], len(res["bad"])))
        if res["bad"] and os.environ.get("VERIF_DEBUG"):
            import collections
            for k, c in collections.Counter((b["clause"], b["dev"], b["t"]) for b in res["bad"]).most_common(40):
                log("     %5d %s" % (c, k))
        self._classify(res["bad"], path, driver)
        os.remove(path)
        return res

    # -- hostile inputs: executed in child processes under an address-space limit -------------
    def gen_histories(self, driver, n, types=None, seed_off=0, poison=0, small=False):
        vd = self.build()
        out = os.path.join(self.scratch, "hist-%s-%d%s.ndjson" % (driver, self.seed + seed_off, "-p%d" % poison if poison else ""))
        cmd = [vd, "gen", "-driver", driver, "-seed", str(self.seed + seed_off), "-n", str(n), "-out", out]
        if types:
            cmd += ["-types", ",".join(types)]
        if poison:
            cmd += ["-poison", str(poison)]
        if small:
            cmd += ["-small"]
        p = subprocess.run(cmd, capture_output=True, text=True, env=dict(os.environ, VERIF_SCHEMA=SCHEMA))
        if p.returncode != 0:
            raise Broken("gen %s failed: %s" % (driver, p.stderr[-2000:]))
        return out

    def spec_hostile(self, nvalues, types=None):
        """direction A: TLC derives hostile inputs (and what the decode action does with them) from sample values"""
        vd = self.build()
        vals = os.path.join(self.scratch, "values-%d.ndjson" % self.seed)
        cmd = [vd, "values", "-seed", str(self.seed), "-n", str(nvalues), "-out", vals]
        if types:
            cmd += ["-types", ",".join(types)]
        p = subprocess.run(cmd, capture_output=True, text=True, env=dict(os.environ, VERIF_SCHEMA=SCHEMA))
        if p.returncode != 0:
            raise Broken("values failed: %s" % p.stderr[-2000:])
        r = self.model("Hostile.tla", "Hostile.cfg", env={"VERIF_VALUES": vals}, workers=1, note="specification-generated hostile inputs")
        reports = []
        for line in tlc_prints(r["out"], "HOSTILE"):
            reports += json.loads(parse_tla_string(line))
        if not reports:
            raise Broken("the specification generated no hostile input")
        out = os.path.join(self.scratch, "hist-spec-hostile-%d.ndjson" % self.seed)
        with open(out, "w") as f:
            for rp in reports:
                f.write(json.dumps([{"op": "load", "b": "b", "bytes": rp["w"]},
                                    {"op": "decode", "b": "b", "o": "r", "t": rp["t"], "fresh": True, "meter": True,
                                     "tag": "spec-hostile:%s" % ("ok" if rp["ok"] else rp["why"])}]) + "\n")
        return out, reports

    def spec_images(self, nvalues, types=None, reencode=True):
        """direction A: wire images rendered by the SPECIFICATION (EncMsg) are decoded by the real code (and the result re-encoded)"""
        vd = self.build()
        vals = os.path.join(self.scratch, "img-values-%d.ndjson" % self.seed)
        cmd = [vd, "values", "-seed", str(self.seed + 7), "-n", str(nvalues), "-out", vals]
        if types:
            cmd += ["-types", ",".join(types)]
        p = subprocess.run(cmd, capture_output=True, text=True, env=dict(os.environ, VERIF_SCHEMA=SCHEMA))
        if p.returncode != 0:
            raise Broken("values failed: %s" % p.stderr[-2000:])
        r = self.model("Images.tla", "Images.cfg", env={"VERIF_VALUES": vals}, workers=1, note="specification-built wire images (SelfDecodes: every pinned rendering decodes and consumes exactly itself)")
        reports = []
        for line in tlc_prints(r["out"], "IMAGE"):
            reports += json.loads(parse_tla_string(line))
        if not reports:
            raise Broken("the specification produced no image")
        out = os.path.join(self.scratch, "hist-spec-images-%d.ndjson" % self.seed)
        with open(out, "w") as f:
            for k, rp in enumerate(reports):
                ops = [{"op": "load", "b": "b", "bytes": rp["w"] + ([9, 9] if k % 3 == 0 else [])},
                       {"op": "decode", "b": "b", "o": "r", "t": rp["t"], "fresh": True, "tag": "spec-image"}]
                if reencode:
                    if k % 2 == 1:
                        ops.append({"op": "scribble", "b": "b", "k": 16, "tag": "recycle-receive-buffer"})
                    ops.append({"op": "encode", "b": "b2", "o": "r", "tag": "reencode"})
                f.write(json.dumps(ops) + "\n")
        self.cov["spec_built_images"] = self.cov.get("spec_built_images", 0) + len(reports)
        return out

    def format_theorems(self, nvalues):
        """C01/C08/C11 as theorems of the pinned format, checked by TLC on sample values of all 170 types"""
        vd = self.build()
        vals = os.path.join(self.scratch, "thm-values-%d.ndjson" % self.seed)
        p = subprocess.run([vd, "values", "-seed", str(self.seed + 13), "-n", str(nvalues), "-out", vals], capture_output=True, text=True,
                           env=dict(os.environ, VERIF_SCHEMA=SCHEMA))
        if p.returncode != 0:
            raise Broken("values failed: %s" % p.stderr[-2000:])
        return self.model("Images.tla", "Images_theorems.cfg", env={"VERIF_VALUES": vals},
                          note="theorems of the format on %d value(s) per type x 4 text cuts: SelfDecodes, RoundTrips (C01), PrefixFree (C11, every cut of every image <= 260 bytes), "
                               "ReencodeSmall (C08, all 87,381 strings <= 8 bytes over 4 symbols for sample.SubPacket)" % nvalues)

    def child_trace(self, hist_path, label, shards=None, vmem_kb=1572864):
        """run histories in child processes under ulimit -v; an aborted or hung child becomes an event"""
        vd = self.build()
        lines = open(hist_path).read().splitlines()
        shards = shards or min(NCPU, max(1, len(lines) // 50))
        parts = [lines[i::shards] for i in range(shards)]

        def run_shard(k):
            hp = "%s.shard%d" % (hist_path, k)
            open(hp, "w").write("\n".join(parts[k]) + "\n")
            ep = hp + ".events"
            if os.path.exists(ep):
                os.remove(ep)
            start, idbase, aborted, hung = 0, k * 10000000, 0, 0
            while start < len(parts[k]):
                cmd = "ulimit -v %d; exec %s child -in %s -out %s -start %d -idbase %d" % (vmem_kb, vd, hp, ep, start, idbase)
                try:
                    p = subprocess.run(["bash", "-c", cmd], capture_output=True, text=True, timeout=1800,
                                       env=dict(os.environ, VERIF_SCHEMA=SCHEMA, GODEBUG="madvdontneed=1"))
                except subprocess.TimeoutExpired:
                    raise Broken("child timed out on %s" % hp)
                if p.returncode == 0:
                    break
                if p.returncode == 2 and "vdrive:" in p.stderr and "fatal error" not in p.stderr:
                    raise Broken("child harness error: " + p.stderr[-1500:])
                # the process died (or a call hung) inside history `idx`
                if not os.path.exists(ep + ".progress"):
                    raise Broken("child died before making progress: rc=%d %s" % (p.returncode, p.stderr[-1500:]))
                idx, nid = [int(x) for x in open(ep + ".progress").read().split()]
                ops = json.loads(parts[k][idx])
                outcome = "hang" if p.returncode == 3 else "abort"
                why = p.stderr.strip().splitlines()[0][:200] if p.stderr.strip() else "rc=%d" % p.returncode
                with open(ep, "a") as f:
                    if outcome == "hang":
                        # events before the hanging op were flushed by the child; find the hanging op
                        done = sum(1 for l in open(ep) if '"h":%d}' % (idx + 1) in l)
                        ops_left = ops[done:]
                    else:
                        ops_left = ops
                    for j, op in enumerate(ops_left):
                        last = j == len(ops_left) - 1
                        nid += 1
                        ev = synth_event(nid, idx + 1, op, outcome if last else None, why)
                        f.write(json.dumps(ev) + "\n")
                if outcome == "abort":
                    aborted += 1
                else:
                    hung += 1
                start, idbase = idx + 1, nid
            os.remove(hp)
            for x in (ep + ".progress", ep + ".hang"):
                if os.path.exists(x):
                    os.remove(x)
            return ep, aborted, hung

        t0 = time.time()
        with concurrent.futures.ThreadPoolExecutor(max_workers=shards) as ex:
            results = list(ex.map(run_shard, range(shards)))
        # merge shards, renumbering histories so that they are unique
        out = os.path.join(self.scratch, "trace-%s-%d.ndjson" % (label, self.seed))
        st = {"histories": 0, "events": 0, "types": 0, "classes": 0, "res_counts": {}, "samples": [], "aborted": 0, "hung": 0}
        types, classes = set(), set()
        with open(out, "w") as fo:
            for k, (ep, ab, hu) in enumerate(results):
                st["aborted"] += ab
                st["hung"] += hu
                hmap = {}
                for line in open(ep):
                    e = json.loads(line)
                    if e["h"] not in hmap:
                        st["histories"] += 1
                        hmap[e["h"]] = st["histories"]
                    e["h"] = hmap[e["h"]]
                    st["events"] += 1
                    e["id"] = st["events"]
                    key = e["op"] + ":" + e["res"]
                    st["res_counts"][key] = st["res_counts"].get(key, 0) + 1
                    if e["t"]:
                        types.add(e["t"])
                    if e["op"] in ("decode", "prim"):
                        classes.add((e["t"] or e["fn"], e["tag"].split(":")[0], e["res"], min(len(e["post"]), 3), json.dumps(e["args"], sort_keys=True)[:80]))
                        if len(st["samples"]) < 3 and e["res"] != "ok":
                            st["samples"].append(e)
                    fo.write(json.dumps(e) + "\n")
                os.remove(ep)
        st["types"], st["classes"] = len(types), len(classes)
        st["wall_s"] = round(time.time() - t0, 2)
        return out, st

    def judge(self, path, st, driver, tracespec="TraceWire.tla", cfg="TraceWire.cfg", chunk=1500, prop=None):
        res = validate_trace(path, prop or self.prop, self.scratch, tracespec, cfg, chunk)
        if res["nchk"] != st["events"]:
            raise Broken("TLC validated %d events, recorder wrote %d" % (res["nchk"], st["events"]))
        self.cov["traces_validated_against_impl"] += st["histories"]
        self.cov["evaluations"] += st["events"]
        self.cov["states"] += res["distinct"]
        self.cov["transitions"] += res["generated"]
        self.cov["trace_runs"].append({"driver": driver, "seed": self.seed, "histories": st["histories"], "events": st["events"],
                                       "types": st["types"], "classes": st["classes"], "res_counts": st["res_counts"],
                                       "aborted_children": st.get("aborted", 0), "hung_calls": st.get("hung", 0),
                                       "tlc_states": res["distinct"], "rejected": len(res["bad"]), "cmd": res["cmd"]})
        self._nontriv_add(driver, st)
        if len(self.cov["samples"]) < 4:
            for s in st.get("samples", [])[:2]:
                self.cov["samples"].append({"driver": driver, "event": compact_event(s)})
        log("  trace %-18s seed=%d  %6d histories %7d events %4d types  aborted=%d hung=%d -> TLC rejected %d" %
            (driver, self.seed, st["histories"], st["events"], st["types"], st.get("aborted", 0), st.get("hung", 0), len(res["bad"])))
        if res["bad"] and os.environ.get("VERIF_DEBUG"):
            import collections
            for k, c in collections.Counter((b["clause"], b["dev"], b["t"]) for b in res["bad"]).most_common(40):
                log("     %5d %s" % (c, k))
        self._classify(res["bad"], path, driver)
        os.remove(path)
        return res

    # -- C19: forced schedules (A) and linearizability of recorded histories (B) -------------------
    def sched_replay(self, cfg, sample=None, note=""):
        """TLC exports the schedules of RegistrySched; the harness forces them on real goroutines"""
        import random
        r = self.model("RegistrySched.tla", cfg, note="schedule export for direction A " + note)
        scheds = [parse_tla_string(x) for x in tlc_prints(r["out"], "SCHEDULE")]
        if not scheds:
            raise Broken("no schedule exported by %s" % cfg)
        total = len(scheds)
        if sample and sample < total:
            random.Random(self.seed).shuffle(scheds)
            scheds = scheds[:sample]
        vd = self.build()
        inp = os.path.join(self.scratch, "sched-%s.ndjson" % cfg)
        outp = inp + ".res"
        open(inp, "w").write("\n".join(scheds) + "\n")
        # several processes in parallel (each has its own registry)
        k = min(NCPU, max(1, len(scheds) // 200))
        parts = [scheds[i::k] for i in range(k)]

        def run_part(i):
            ip, op = "%s.%d" % (inp, i), "%s.%d" % (outp, i)
            open(ip, "w").write("\n".join(parts[i]) + "\n")
            p = subprocess.run([vd, "conc", "sched", "-in", ip, "-out", op], capture_output=True, text=True, timeout=3600,
                               env=dict(os.environ, VERIF_SCHEMA=SCHEMA))
            if p.returncode != 0:
                lf = library_fault(p.stderr)
                if lf:
                    done = [json.loads(l) for l in open(op)] if os.path.exists(op) else []
                    nxt = json.loads(parts[i][len(done)]) if len(done) < len(parts[i]) else None
                    return done + [{"n": len(done) + 1, "verdict": "violation", "step": -1, "schedule": nxt,
                                    "why": "the process crashed while this schedule was forced: " + lf}]
                raise Broken("conc sched failed: " + p.stderr[-1500:])
            return [json.loads(l) for l in open(op)]

        t0 = time.time()
        with concurrent.futures.ThreadPoolExecutor(max_workers=k) as ex:
            results = [x for part in ex.map(run_part, range(k)) for x in part]
        cnt = {"ok": 0, "violation": 0, "inconclusive": 0, "diverged": 0, "mismatch": 0}
        for x in results:
            cnt[x["verdict"]] += 1
        # a schedule the real code did not follow (or answered differently) is judged by the property itself:
        # is the observed history linearizable?  (the hooks only say where the PINNED code's critical sections are)
        suspects = [x for x in results if x["verdict"] in ("diverged", "mismatch") and x.get("history")]
        nonlin = 0
        if suspects:
            sp = os.path.join(self.scratch, "sched-suspects-%s.ndjson" % cfg)
            with open(sp, "w") as f:
                for k, x in enumerate(suspects):
                    for e in x["history"]:
                        e["h"] = k + 1
                        f.write(json.dumps(e, separators=(",", ":")) + "\n")
            before = len(self.violations)
            self.lin_validate(sp, "forced schedules the code did not follow (%s)" % cfg)
            nonlin = len(self.violations) - before
        self.cov["replay_runs"].append({"model": "RegistrySched.tla/" + cfg, "schedules_exported": total, "schedules_replayed": len(results),
                                        "followed_with_the_models_results": cnt["ok"], "inconclusive": cnt["inconclusive"],
                                        "diverged": cnt["diverged"], "mismatch": cnt["mismatch"], "of_those_not_linearizable": nonlin,
                                        "library_crashes": cnt["violation"], "wall_s": round(time.time() - t0, 1)})
        self.cov["traces_validated_against_impl"] += len(results)
        self.cov["evaluations"] += sum(len(json.loads(sc)) for sc in scheds)
        self.cov["distinct_nontrivial"] += len(set(scheds))
        if len(self.cov["samples"]) < 4:
            self.cov["samples"].append({"schedule": json.loads(scheds[0])})
        log("  replay %-24s %6d of %d schedules forced on real goroutines: followed=%d inconclusive=%d diverged=%d mismatch=%d (not linearizable: %d) crashes=%d (%.1fs)" %
            (cfg, len(results), total, cnt["ok"], cnt["inconclusive"], cnt["diverged"], cnt["mismatch"], nonlin, cnt["violation"], time.time() - t0))
        if cnt["inconclusive"] or cnt["diverged"] or cnt["mismatch"]:
            self.assumptions.append("%d inconclusive / %d diverged / %d mismatching forced schedules of %s on this tree: the gate hooks mark the pinned code's critical "
                                    "sections; such schedules are judged only by the linearizability of what was observed" %
                                    (cnt["inconclusive"], cnt["diverged"], cnt["mismatch"], cfg))
        for x in results:
            if x["verdict"] == "violation" and len(self.violations) < 5:
                rp = self.write_replay({"kind": "schedule", "why": x["why"], "step": x["step"], "schedule": x["schedule"]})
                self.violations.append({"what": "forced schedule: " + x["why"], "replay": rp})
        return cnt

    def lin_stress(self, histories, procs, calls, names=2, seed_off=0, profile="random"):
        """hook-free stress of the real registry under the race detector; TLC searches a linearization"""
        vd = self.build(race=True)
        seed = self.seed + seed_off
        path = os.path.join(self.scratch, "reg-%s-%d-%d-%d.ndjson" % (profile, procs, calls, seed))
        cmd = [vd, "conc", "stress", "-seed", str(seed), "-histories", str(histories), "-procs", str(procs), "-calls", str(calls),
               "-names", str(names), "-profile", profile, "-out", path]
        p = subprocess.run(cmd, capture_output=True, text=True, timeout=1800, env=dict(os.environ, GORACE="halt_on_error=0 exitcode=66"))
        if "DATA RACE" in p.stderr or p.returncode == 66:
            rp = self.write_replay({"kind": "race", "cmd": " ".join(cmd[1:]), "report": p.stderr[:6000]})
            self.violations.append({"what": "the race detector reported a data race in the registry stress run", "replay": rp})
            log("  stress procs=%d calls=%d: DATA RACE reported by the race detector" % (procs, calls))
            return
        if p.returncode != 0:
            lf = library_fault(p.stderr)
            if lf:
                rp = self.write_replay({"kind": "race", "cmd": " ".join(cmd[1:]), "report": p.stderr[:6000]})
                self.violations.append({"what": "the registry stress run crashed: " + lf, "replay": rp})
                log("  stress procs=%d calls=%d: process crashed: %s" % (procs, calls, lf))
                return
            raise Broken("conc stress failed: rc=%d %s" % (p.returncode, p.stderr[-1500:]))
        self.lin_validate(path, "stress %s procs=%d calls=%d names=%d" % (profile, procs, calls, names))

    def lin_validate(self, path, label):
        lines = open(path).read().splitlines()
        # chunks at history boundaries ("reset" events)
        chunks, cur = [], []
        for ln in lines:
            if '"e":"reset"' in ln and len(cur) >= 4000:
                chunks.append(cur)
                cur = []
            cur.append(ln)
        if cur:
            chunks.append(cur)

        def val(args):
            i, ch = args
            cp = "%s.chunk%d" % (path, i)
            open(cp, "w").write("\n".join(ch) + "\n")
            rejected = []
            while True:
                r = run_tlc("TraceRegistry.tla", "TraceRegistry.cfg", self.scratch, env={"VERIF_TRACE": cp}, workers=1, timeout=1800,
                            tag="lin-%s-%d" % (os.path.basename(path), i))
                if r["error"] or not r["completed"]:
                    raise Broken("TraceRegistry failed: %s" % (r["error"] or r["out"][-1500:]))
                hw = tlc_prints(r["out"], "HIGHWATER")
                if not hw:
                    raise Broken("no HIGHWATER line")
                reached, total = [int(x) for x in hw[-1].split(",")]
                if reached == total + 1:
                    return rejected, r
                # the history containing event `reached` is not linearizable: cut it out and go on
                cur = open(cp).read().splitlines()
                h = json.loads(cur[reached - 1])["h"]
                bad = [l for l in cur if json.loads(l)["h"] == h]
                rejected.append((h, reached, bad))
                rest = [l for l in cur if json.loads(l)["h"] != h]
                if not rest:
                    return rejected, r
                open(cp, "w").write("\n".join(rest) + "\n")

        nhist = sum(1 for l in lines if '"e":"reset"' in l)
        rej_all, states, gen = [], 0, 0
        with concurrent.futures.ThreadPoolExecutor(max_workers=max(1, NCPU // 2)) as ex:
            for rejected, r in ex.map(val, list(enumerate(chunks))):
                rej_all += rejected
                states += r["distinct"]
                gen += r["generated"]
        self.cov["states"] += states
        self.cov["transitions"] += gen
        self.cov["traces_validated_against_impl"] += nhist
        self.cov["evaluations"] += len(lines)
        overl = count_overlaps(lines)
        self.cov["distinct_nontrivial"] += overl
        self.cov["trace_runs"].append({"driver": "registry " + label, "histories": nhist, "events": len(lines), "histories_with_overlapping_calls": overl,
                                       "tlc_states": states, "rejected": len(rej_all)})
        if len(self.cov["samples"]) < 4:
            self.cov["samples"].append({"history": [json.loads(l) for l in lines[1:9]]})
        log("  lin   %-34s %5d histories %7d events (%d with overlapping calls) TLC states=%d -> not linearizable: %d" %
            (label, nhist, len(lines), overl, states, len(rej_all)))
        for h, at, bad in rej_all[:5]:
            rp = self.write_replay({"kind": "lin-history", "rejected_at_event": at, "events": [json.loads(l) for l in bad]})
            self.violations.append({"what": "history %d of the registry stress run has no linearization (stuck at event %d)" % (h, at), "replay": rp})
        os.remove(path)

    # -- the WireMachine design model and its behaviours (direction A) ---------------------------
    def wm_values(self, kind="wm"):
        vd = self.build()
        vals = os.path.join(self.scratch, "%s-values-%d.ndjson" % (kind, self.seed))
        if not os.path.exists(vals):
            p = subprocess.run([vd, "values", "-" + kind, "-seed", str(self.seed), "-out", vals], capture_output=True, text=True,
                               env=dict(os.environ, VERIF_SCHEMA=SCHEMA))
            if p.returncode != 0:
                raise Broken("values -wm failed: " + p.stderr[-1500:])
        return vals

    def wire_model(self, cfg, expect="ok", note=""):
        return self.model("MCWire.tla", cfg, expect=expect, env={"VERIF_VALUES": self.wm_values()}, note=note)

    def receiver_design(self, mode="clauses", sample=None, sim=None, full=False):
        """WireMachine with kept receivers and refused decodes (Receivers = TRUE) over a universe of its own: one frame type with three
        registered bodies (and none), one extension owner with two application ids.  Exhaustive design check, the deviation that must
        fail, and direction A: every exported behaviour (or a sample) executed on the real types with ONE receiver object per type
        kept for the whole behaviour."""
        vals = self.wm_values("wmrcv")
        deep = self.tier != "quick"
        # (the export configuration checks the state invariants on every behaviour of depth 5 as well; the separate exhaustive run with the
        # action property, and the sensitivity configuration, are made by C15 in the quick tier and by every user in the thorough tier)
        if full or deep:
            self.model("MCWire.tla", "MCWire_rcv_d6.cfg" if deep else "MCWire_rcv_d5.cfg", env={"VERIF_VALUES": vals},
                       note="kept receivers + refused decodes, every history of <= %d operations: FramesRight, HeadDecodes, ChannelShape, ReceiverIndependent, AppendOnly" % (6 if deep else 5))
            self.model("MCWire.tla", "MCWire_dev_rcvkeeps.cfg", expect="ReceiverIndependent", env={"VERIF_VALUES": vals})
        n = self.behaviour_replay("MCWire_rcv_export5.cfg", sample=sample, mode=mode, vals=vals, note="(kept receivers)",
                                  keep=lambda st: sum(1 for x in st if x["op"] in ("decode", "refused")) >= 2)
        # focus configurations: two messages of ONE type (the extension owner's two application ids; two bodies of the frame), the operations
        # encode / partial segment / decode / refused decode, EVERY history of 6 operations (ok -> refused after the discriminator -> ok on
        # one receiver needs exactly 6)
        lines = open(vals).read().splitlines()
        owner = json.loads(lines[-1])["t"]
        for tag, sel in (("A", [l for l in lines if json.loads(l)["t"] == owner]), ("B", [l for l in lines if json.loads(l)["t"] != owner][:2])):
            if len(sel) < 2:
                continue
            fv = os.path.join(self.scratch, "wmrcv-focus%s-%d.ndjson" % (tag, self.seed))
            open(fv, "w").write("\n".join(sel) + "\n")
            n += self.behaviour_replay("MCWire_rcv_focus6.cfg", mode=mode, vals=fv, note="(kept receivers, focus %s: 2 messages of %s, depth 6)" % (tag, json.loads(sel[0])["t"]),
                                       keep=lambda st: sum(1 for x in st if x["op"] in ("decode", "refused")) >= 2)
        if sim:
            n += self.behaviour_replay("MCWire_rcv_sim7.cfg", mode=mode, vals=vals, note="(kept receivers, random walks of 7 operations)",
                                       extra=["-simulate", "num=%d" % sim, "-depth", "8", "-seed", str(self.seed)], workers=4,
                                       keep=lambda st: sum(1 for x in st if x["op"] in ("decode", "refused")) >= 2)
        return n

    def behaviour_replay(self, cfg, sample=None, note="", mode="clauses", vals=None, keep=None, extra=None, workers=None):
        """direction A for the WireMachine model.  TLC exports every behaviour; it is executed on the real types.
        mode "clauses": the recorded events are judged by the trace specification with THIS property's clauses (so that a defect
        of another property in the same bytes is not blamed on this one);  mode "equal": after every step the real observation
        must equal the model's (C02: the model's bytes are the pinned rendering)."""
        import random
        vals = vals or self.wm_values()
        r = self.model("MCWire.tla", cfg, env={"VERIF_VALUES": vals}, note="behaviour export for direction A " + note, extra=extra, workers=workers,
                       expect="sim" if extra else "ok")
        behs = [parse_tla_string(x) for x in tlc_prints(r["out"], "BEHAVIOUR")]
        if not behs:
            raise Broken("no behaviour exported by %s" % cfg)
        total = len(behs)
        if keep:
            behs = sorted(set(b for b in behs if keep(json.loads(b))))
            if not behs:
                raise Broken("no behaviour of %s passes the filter" % cfg)
        if sample and sample < total:
            random.Random(self.seed).shuffle(behs)
            behs = behs[:sample]
        vd = self.build()
        t0 = time.time()
        steps = sum(len(json.loads(b)) for b in behs)
        if mode == "equal":
            inp = os.path.join(self.scratch, "beh-%s.ndjson" % cfg)
            open(inp, "w").write("\n".join(behs) + "\n")
            p = subprocess.run([vd, "replay", "-values", vals, "-in", inp, "-out", inp + ".res"], capture_output=True, text=True, timeout=3600,
                               env=dict(os.environ, VERIF_SCHEMA=SCHEMA))
            if p.returncode != 0:
                raise Broken("replay failed: " + p.stderr[-1500:])
            results = [json.loads(l) for l in open(inp + ".res")]
            bad = [x for x in results if x["verdict"] != "ok"]
            for x in bad[:5]:
                if len(self.violations) < 5:
                    rp = self.write_replay({"kind": "behaviour", "why": x["why"], "step": x["step"], "behaviour": x["behaviour"],
                                            "values": [json.loads(l) for l in open(vals)]})
                    self.violations.append({"what": "model behaviour, step %d: %s" % (x["step"], x["why"]), "replay": rp})
            nbad = len(bad)
        else:
            msgs = [json.loads(l) for l in open(vals)]
            hp = os.path.join(self.scratch, "hist-beh-%s.ndjson" % cfg)
            with open(hp, "w") as f:
                for b in behs:
                    st = json.loads(b)
                    used = sorted({x["m"] for x in st if "m" in x})
                    ops = [{"op": "new", "o": "m%d" % m, "v": msgs[m - 1]["v"]} for m in used]
                    # a reference rendering of every message the behaviour encodes, made before the behaviour starts (copies, buffers
                    # of their own): the self-referential clauses (context-free, known-good layout) then have something to compare with
                    for m in used:
                        ops += [{"op": "new", "o": "ref%d" % m, "v": msgs[m - 1]["v"]},
                                {"op": "encode", "b": "bref%d" % m, "o": "ref%d" % m, "tag": "reference-before-the-behaviour"}]
                    for x in st:
                        if x["op"] == "stale":
                            ops.append({"op": "new", "o": "m%d" % x["m"], "v": x["vpost"], "tag": "stale-fields"})
                        elif x["op"] == "encode":
                            ops.append({"op": "encode", "b": "b", "o": "m%d" % x["m"], "tag": "model-behaviour"})
                        elif x["op"] == "decode" and x.get("kept"):
                            if self.prop == "C15":
                                # the same buffer content into a fresh receiver first (what C15 compares with)
                                k = len(ops)
                                ops.append({"op": "cut", "b": "bf%d" % k, "from": "b", "k": 1 << 30})
                                ops.append({"op": "decode", "b": "bf%d" % k, "o": "fresh%d" % k, "t": x["t"], "fresh": True, "tag": "same-bytes-fresh-receiver"})
                            ops.append({"op": "decode", "b": "b", "o": "r_" + x["t"], "t": x["t"], "tag": "model-behaviour-kept-receiver"})
                        elif x["op"] == "refused":
                            # a decode the model refuses, into the kept receiver; the caller then drops the buffer
                            ops.append({"op": "decode", "b": "b", "o": "r_" + x["t"], "t": x["t"], "tag": "model-refuses"})
                            ops.append({"op": "reset", "b": "b"})
                        elif x["op"] == "decode":
                            ops.append({"op": "decode", "b": "b", "o": "r", "t": x["t"], "fresh": True, "tag": "model-behaviour"})
                        elif x["op"] == "next":
                            ops.append({"op": "next", "b": "b", "k": x["k"]})
                        elif x["op"] == "reset":
                            ops.append({"op": "reset", "b": "b"})
                        elif x["op"] == "write":
                            ops.append({"op": "write", "b": "b", "bytes": x["bytes"]})
                        elif x["op"] in ("regremove", "regrestore"):
                            ops.append({"op": x["op"], "alg": x["alg"]})
                    for a in sorted({x["alg"] for x in st if x["op"] == "regremove"}):
                        ops.append({"op": "regrestore", "alg": a})
                    f.write(json.dumps(ops) + "\n")
            path, stt = self.child_trace(hp, "model-behaviours")
            before = len(self.violations)
            res = validate_trace(path, self.prop, self.scratch)
            if res["nchk"] != stt["events"]:
                raise Broken("TLC validated %d events, the replay wrote %d" % (res["nchk"], stt["events"]))
            self.cov["states"] += res["distinct"]
            self.cov["transitions"] += res["generated"]
            self._classify(res["bad"], path, "model-behaviours")
            nbad = len([b for b in res["bad"] if b["clause"].split(".")[0] == self.prop])
            os.remove(path)
        self.cov["replay_runs"].append({"model": "MCWire.tla/" + cfg, "mode": mode, "behaviours_exported": total, "behaviours_replayed": len(behs),
                                        "steps": steps, "rejected_or_mismatching": nbad, "wall_s": round(time.time() - t0, 1)})
        self.cov["traces_validated_against_impl"] += len(behs)
        self.cov["evaluations"] += steps
        self.cov["distinct_nontrivial"] += len(set(behs))
        if len(self.cov["samples"]) < 4:
            self.cov["samples"].append({"behaviour": [compact_event(x) for x in json.loads(behs[0])]})
        log("  replay %-24s %6d of %d behaviours (%d steps) executed on the real types, judged by %s: rejected=%d (%.1fs)" %
            (cfg, len(behs), total, steps, "equality with the model" if mode == "equal" else "this property's trace clauses", nbad, time.time() - t0))
        return nbad

    # -- the PrimMachine design model and its cases (direction A for C03/C13/C18) -----------------
    def prim_model_replay(self):
        """the PrimMachine design model; every case it exports (a writer call, then the matching reader) is executed on the real
        primitives and the recorded events are judged by the trace specification with THIS property's clauses"""
        r = self.model("MCPrims.tla", "MCPrims.cfg" if self.tier == "quick" else "MCPrims_thorough.cfg",
                       note="every writer call of the finite family MCPrims!AllCalls, on a fresh and on a recycled buffer (320 stale bytes of spare capacity), followed by the matching reader: ExactWidth, ReadBack, PairRelation, WrapRefused, SpareIgnored")
        cases = [parse_tla_string(x) for x in tlc_prints(r["out"], "PRIMCASE")]
        if not cases:
            raise Broken("no primitive case exported")
        t0 = time.time()
        hp = os.path.join(self.scratch, "hist-primcases.ndjson")
        with open(hp, "w") as f:
            group = []
            for k, cs in enumerate(cases):
                c = json.loads(cs)
                b = "b%d" % (k % 40)
                if c.get("recycled"):
                    # the model's recycled buffer: stale bytes lie in the spare capacity behind the buffer's end
                    b = "r%d" % (k % 40)
                    group += [{"op": "reset", "b": b}, {"op": "write", "b": b, "bytes": c["stale"]}, {"op": "reset", "b": b},
                              {"op": "prim", "b": b, "fn": c["fn"], "args": c["a"], "tag": "model-case-recycled-buffer"}]
                else:
                    group += [{"op": "write", "b": b, "bytes": [9, 9, 9]}, {"op": "next", "b": b, "k": 3},     # consumed prior content: the primitive must only append
                              {"op": "prim", "b": b, "fn": c["fn"], "args": c["a"], "tag": "model-case"}]
                if c["ok"]:
                    group.append({"op": "prim", "b": b, "fn": c["rfn"], "args": c["a"], "tag": "read-back"})
                if k % 40 == 39:
                    f.write(json.dumps(group) + "\n")
                    group = []
            if group:
                f.write(json.dumps(group) + "\n")
        path, st = self.child_trace(hp, "model-cases")
        res = validate_trace(path, self.prop, self.scratch, chunk=4000)
        if res["nchk"] != st["events"]:
            raise Broken("TLC validated %d events, the replay wrote %d" % (res["nchk"], st["events"]))
        self.cov["states"] += res["distinct"]
        self.cov["transitions"] += res["generated"]
        self._classify(res["bad"], path, "model-cases")
        nbad = len([b for b in res["bad"] if b["clause"].split(".")[0] == self.prop])
        os.remove(path)
        self.cov["replay_runs"].append({"model": "MCPrims.tla", "cases_exported": len(cases), "cases_replayed": len(cases), "rejected": nbad,
                                        "wall_s": round(time.time() - t0, 1)})
        self.cov["traces_validated_against_impl"] += len(cases)
        self.cov["evaluations"] += 2 * len(cases)
        self.cov["distinct_nontrivial"] += len(set(cases))
        if len(self.cov["samples"]) < 4:
            self.cov["samples"].append({"primitive_case": json.loads(cases[len(cases) // 2])})
        log("  replay MCPrims                  %6d primitive cases (write + read back) executed on the real primitives, judged by this property's clauses: rejected=%d (%.1fs)" %
            (len(cases), nbad, time.time() - t0))

    # -- C20 -------------------------------------------------------------------------------------
    def parallel(self, driver, n, goroutines=16, rounds=1, types=None, seed_off=0, small=False, race_filter=None, prop_clauses="C20", poison=0, abort_violates=True, race=True, rereg=False, hammer=0):
        """the driver's histories run alone and then by many goroutines at once (race detector on);
        TLC validates the parallel events sequentially and against their solo twins"""
        vd = self.build()
        vr = self.build(race=True) if race else vd
        hp = self.gen_histories(driver, n, types=types, seed_off=seed_off, poison=poison, small=small)
        if poison:
            driver = "%s+poison%d" % (driver, poison)
        out = os.path.join(self.scratch, "par-%s-%d.ndjson" % (driver, self.seed + seed_off))
        cmd = [vr, "conc", "parallel", "-in", hp, "-out", out, "-goroutines", str(goroutines), "-rounds", str(rounds)] + (["-rereg"] if rereg else []) + (["-hammer", str(hammer)] if hammer else [])
        p = subprocess.run(cmd, capture_output=True, text=True, timeout=3600,
                           env=dict(os.environ, GORACE="halt_on_error=0 exitcode=66", VERIF_SCHEMA=SCHEMA))
        raced = "DATA RACE" in p.stderr or p.returncode == 66
        if raced and (race_filter is None or race_filter in p.stderr):
            rp = self.write_replay({"kind": "race", "cmd": " ".join(cmd[1:]), "report": p.stderr[:6000], "histories": open(hp).read().splitlines()[:2000]})
            self.violations.append({"what": "the race detector reported a data race while independent messages were encoded/decoded in parallel", "replay": rp})
            log("  parallel %s: DATA RACE reported by the race detector" % driver)
            return
        if raced and race_filter == "RESULTS-ONLY":
            log("  parallel %s: the race detector reported a data race; this property is judged on the results of the calls only (races are C20's)" % driver)
        elif raced:
            log("  parallel %s: a data race NOT involving %s was reported - not this property's; the results are judged all the same" % (driver, race_filter))
            self.assumptions.append("the race detector reported a race outside %s during the parallel stage; that belongs to C20" % race_filter)
        if p.returncode not in (0, 66):
            fault = library_fault(p.stderr)
            if fault and first_foreign_frame_is_library(p.stderr):
                # the Go runtime aborted the process inside the library (recover() cannot catch these)
                if abort_violates:
                    rp = self.write_replay({"kind": "race", "cmd": " ".join(cmd[1:]), "report": p.stderr[:6000], "histories": open(hp).read().splitlines()[:2000]})
                    self.violations.append({"what": "the Go runtime aborted the process inside the library while independent messages were handled in parallel: %s" % fault, "replay": rp})
                    log("  parallel %s: process aborted by the runtime inside the library: %s" % (driver, fault))
                else:
                    log("  parallel %s: process aborted by the runtime inside the library (%s) - not this property's (C09/C17/C20); stage inconclusive" % (driver, fault))
                    self.assumptions.append("a parallel stage was aborted by the Go runtime inside the library (%s); that belongs to C09/C17/C20" % fault)
                return
            raise Broken("conc parallel failed: rc=%d %s" % (p.returncode, p.stderr[-1500:]))
        # the solo events must stay addressable by line number: no chunking, one TLC run
        nev = sum(1 for _ in open(out))
        nh = len(set(re.findall(r'"h":(\d+),"twin"', open(out).read())))
        st = {"histories": nh, "events": nev, "types": len(types) if types else 170, "classes": 0, "res_counts": {}, "samples": []}
        classes = set()
        for line in open(out):
            e = json.loads(line)
            st["res_counts"][e["op"] + ":" + e["res"]] = st["res_counts"].get(e["op"] + ":" + e["res"], 0) + 1
            if e["twin"] > 0 and e["op"] in ("encode", "decode"):
                classes.add((e["t"], e["op"], e["res"]))
                if len(st["samples"]) < 2:
                    st["samples"].append(e)
        st["classes"] = len(classes)
        res = validate_trace(out, prop_clauses, self.scratch, chunk=10 ** 9)
        if res["nchk"] != nev:
            raise Broken("TLC validated %d of %d events" % (res["nchk"], nev))
        self.cov["traces_validated_against_impl"] += nh
        self.cov["evaluations"] += nev
        self.cov["states"] += res["distinct"]
        self.cov["transitions"] += res["generated"]
        self.cov["distinct_nontrivial"] += st["classes"]
        self.cov["trace_runs"].append({"driver": "parallel:" + driver, "goroutines": goroutines, "rounds": rounds, "histories": nh, "events": nev,
                                       "res_counts": st["res_counts"], "rejected": len(res["bad"])})
        if len(self.cov["samples"]) < 4:
            for sm in st["samples"][:1]:
                self.cov["samples"].append({"driver": "parallel:" + driver, "event": compact_event(sm)})
        log("  parallel %-16s %3d goroutines x %d rounds: %6d histories %7d events -> TLC rejected %d" % (driver, goroutines, rounds, nh, nev, len(res["bad"])))
        self._classify(res["bad"], out, driver)
        os.remove(out)

    def _nontriv_add(self, driver, st):
        self.cov["distinct_nontrivial"] += st["classes"]

    def _classify(self, bad, tracepath, driver):
        seen_h = set()
        for b in bad:
            cprop = b["clause"].split(".")[0]
            if cprop != self.prop:
                continue
            f = ledger_match(self.ledger, self.prop, b["dev"], b["t"]) if b["dev"] != "none" else None
            if f:
                key = "property=%s %s @ %s: %s" % (self.prop, b["dev"], b["t"], f["what"])
                self.known[key] = self.known.get(key, 0) + 1
                continue
            if b["h"] in seen_h:
                continue
            seen_h.add(b["h"])
            if len(self.violations) >= 5:
                continue
            evs = history_events(tracepath, b["h"])
            rp = self.write_replay({"kind": "trace", "driver": driver, "clause": b["clause"], "deviation": b["dev"], "event_id": b["id"],
                                    "type": b["t"], "events": evs})
            self.violations.append({"what": "%s on %s (event %d, deviation %s)" % (b["clause"], b["t"], b["id"], b["dev"]), "replay": rp})

    def write_replay(self, obj):
        d = os.environ.get("VERIF_REPLAY_DIR") or os.path.join(VERIF, "replays")
        os.makedirs(d, exist_ok=True)
        obj["property"] = self.prop
        obj["seed"] = self.seed
        data = json.dumps(obj)
        name = "%s-%s.json" % (self.prop, hashlib.md5(data.encode()).hexdigest()[:10])
        p = os.path.join(d, name)
        open(p, "w").write(data)
        return p

    # -- finishing -------------------------------------------------------------------------
    def finish(self, rule, level="model_checking", extra_cov=None):
        self.cov["rule"] = rule
        if extra_cov:
            self.cov.update(extra_cov)
        ev = {"property_id": self.prop, "tier": self.tier, "seed": self.seed, "level": level, "coverage": self.cov,
              "assumptions": self.assumptions, "wall_s": round(time.time() - self.t0, 2), "violations": len(self.violations),
              "known_findings": sorted(self.known)}
        if not self.cov["samples"]:
            self.cov["samples"] = [{"note": "no sample captured"}]
        # tools that judge a seeded/benign scratch tree (VERIF_REPO=<worktree>) redirect the evidence: the files
        # under /verif/evidence must only ever describe runs against /repo itself
        evdir = os.environ.get("VERIF_EVIDENCE_DIR") or os.path.join(VERIF, "evidence")
        os.makedirs(evdir, exist_ok=True)
        tmp = os.path.join(evdir, ".%s.json.%d" % (self.prop, os.getpid()))
        json.dump(ev, open(tmp, "w"), indent=1)
        os.replace(tmp, os.path.join(evdir, "%s.json" % self.prop))
        for k in sorted(self.known):
            log("KNOWN-FINDING: %s (%d occurrences)" % (k, self.known[k]))
        for v in self.violations:
            log("  violation: " + v["what"])
            log("VIOLATION property=%s replay=%s" % (self.prop, v["replay"]))
        log("%s %s tier=%s seed=%d: states=%d transitions=%d traces=%d evaluations=%d wall=%.1fs" % (
            "FAIL" if self.violations else "PASS", self.prop, self.tier, self.seed, self.cov["states"], self.cov["transitions"],
            self.cov["traces_validated_against_impl"], self.cov["evaluations"], time.time() - self.t0))
        return 1 if self.violations else 0


LIB_FAULTS = ("fatal error: sync: Unlock of unlocked", "fatal error: sync: RUnlock of unlocked", "fatal error: concurrent map",
              "sync: unlock of unlocked mutex", "sync: negative WaitGroup")


def library_fault(stderr):
    """a Go runtime fault that only misuse of synchronisation inside the library can cause (never the harness, which owns no lock it unlocks)"""
    for f in LIB_FAULTS:
        if f in stderr:
            return f
    return None


def first_foreign_frame_is_library(stderr):
    """in the crash report of the running goroutine, is the first frame outside the Go runtime a library frame (not a harness frame)?"""
    m = re.search(r"goroutine \d+ \[running\]:\n(.*?)(\n\n|$)", stderr, re.S)
    if not m:
        return False
    for line in m.group(1).splitlines():
        if line.startswith("\t") or line.startswith("runtime.") or line.startswith("internal/") or line.startswith("sync."):
            continue
        return "github.com/xinchentechnote/fin-proto-go/" in line
    return False


def count_overlaps(lines):
    """number of histories in which at least two calls overlap in real time"""
    n, open_calls, overl, cur = 0, 0, False, None
    for ln in lines:
        e = json.loads(ln)
        if e["e"] == "reset":
            if overl:
                n += 1
            open_calls, overl = 0, False
        elif e["e"] == "inv":
            open_calls += 1
            if open_calls > 1:
                overl = True
        elif e["e"] == "ret":
            open_calls -= 1
    if overl:
        n += 1
    return n


def synth_event(nid, h, op, outcome, why):
    """an event for an op whose process died (abort) or whose call did not return (hang)"""
    ev = {"id": nid, "op": op["op"], "b": op.get("b", ""), "o": op.get("o", ""), "t": op.get("t", ""), "k": op.get("k", 0),
          "bytes": op.get("bytes", []), "v": {"_t": "nil"}, "vpost": {"_t": "nil"}, "res": "na", "err": "", "post": [], "out": [],
          "alg": op.get("alg", ""), "alloc": -1, "inlen": 0, "tag": op.get("tag", ""), "from": op.get("from", ""),
          "fresh": op.get("fresh", False), "fn": op.get("fn", ""), "args": op.get("args", {}), "ret": [], "big": False, "same": False,
          "plen": 0, "h": h}
    if op["op"] == "load":
        ev["post"] = op.get("bytes", [])
    if outcome:
        ev["res"] = outcome
        ev["err"] = why
        ev["alloc"] = 1073741824 if outcome == "abort" else -1
        ev["inlen"] = 0
    return ev


def compact_event(e):
    def short(x):
        if isinstance(x, list) and len(x) > 24:
            return x[:24] + ["...(%d)" % len(x)]
        if isinstance(x, dict):
            return {k: short(v) for k, v in list(x.items())[:12]}
        return x
    return {k: short(v) for k, v in e.items() if k in ("op", "t", "res", "post", "v", "bytes", "out", "alg", "k", "fn", "args")}


# ------------------------------------------------------------------------------------------

def main():
    ap = argparse.ArgumentParser()
    ap.add_argument("prop")
    ap.add_argument("--tier", default=os.environ.get("VERIF_TIER", "quick"), choices=["quick", "thorough"])
    ap.add_argument("--replay")
    a = ap.parse_args()
    seed = int(os.environ.get("VERIF_SEED", "1"))
    import props
    if a.prop not in props.CHECKS:
        print("unknown property", a.prop)
        sys.exit(2)
    run = Run(a.prop, a.tier, seed)
    try:
        if a.replay:
            rc = props.replay(run, a.replay)
        else:
            log("check %s tier=%s seed=%d repo=%s" % (a.prop, a.tier, seed, REPO))
            rc = props.CHECKS[a.prop](run)
        sys.exit(rc)
    except Broken as e:
        if run.violations:
            # a later stage could not do its job, but earlier stages already observed the real code violating the property:
            # those observations stand (the stage that broke is reported, it decides nothing)
            log("  stage broken after violations were observed: %s" % str(e)[:300])
            for v in run.violations:
                log("  violation: " + v["what"])
                log("VIOLATION property=%s replay=%s" % (a.prop, v["replay"]))
            sys.exit(1)
        log("CHECK-BROKEN property=%s: %s" % (a.prop, e))
        sys.exit(2)
    finally:
        run.cleanup()
