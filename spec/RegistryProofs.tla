--------------------------- MODULE RegistryProofs ---------------------------
(***************************************************************************)
(* Machine-checked (TLAPS) proof that the lock discipline of               *)
(* codec/checksum.go, as modelled in ChecksumRegistry, keeps its safety    *)
(* invariants for ANY number of goroutines, names, services and calls -    *)
(* what TLC establishes only for 2-3 goroutines x 1-3 calls (C19).         *)
(*                                                                         *)
(*   Spec => [](MutualExclusion /\ RightName /\ OneWinner /\ WinnerSticks  *)
(*              /\ NoRace)                                                 *)
(*   Spec => [][WritesUnderLock]_vars   the map changes only in a step of  *)
(*                                      the goroutine holding the write    *)
(*                                      lock, with no reader inside        *)
(*                                                                         *)
(* The proof is for the code as it is (Deviations = {}); the named         *)
(* deviations are refuted by TLC, not here.  Linearizability is not proved *)
(* here (TLC + the trace search decide it); with the map written only      *)
(* under the exclusive lock and read only under the shared lock, the       *)
(* linearization point of every call is its Finish step.                   *)
(*                                                                         *)
(* Checked by `tools/prove_registry.sh` (tlapm, all obligations).          *)
(***************************************************************************)
EXTENDS ChecksumRegistry, TLAPS

ASSUME NoDev == Deviations = {}
ASSUME NoneFresh == None \notin Procs /\ None \notin Services
ASSUME ServicesNamed == \A s \in Services : SvcName(s) \in Names

PcStates == {"idle", "waiting", "locked"}

LockHeld(p) == IF op[p].kind = "Get" THEN p \in readers ELSE writer = p

Inv ==
  /\ cache \in [Names -> Services \cup {None}]
  /\ winner \in [Names -> Services \cup {None}]
  /\ wins \in [Names -> Nat]
  /\ writer \in Procs \cup {None}
  /\ readers \subseteq Procs
  /\ pc \in [Procs -> PcStates]
  /\ op \in [Procs -> Ops \cup {None}]
  /\ racing = FALSE
  /\ \A p \in Procs : pc[p] # "idle" => op[p] \in Ops
  /\ \A p \in Procs : pc[p] = "locked" => LockHeld(p)
  /\ MutualExclusion
  /\ RightName
  /\ WinnerSticks
  /\ \A n \in Names : wins[n] = IF cache[n] = None THEN 0 ELSE 1

WritesUnderLock == cache' # cache => \E p \in Procs : writer = p /\ readers = {}

LEMMA OpsKinds == \A o \in Ops : /\ o.kind \in {"Registry", "Get", "Remove", "Clear"}
                                 /\ o.kind = "Registry" => o.svc \in Services
                                 /\ o.kind \in {"Get", "Remove"} => o.name \in Names
  BY DEF Ops

LEMMA NoneNotOp == None \notin Ops => TRUE
  OBVIOUS

THEOREM InitInv == Init => Inv
  BY NoneFresh DEF Init, Inv, MutualExclusion, RightName, WinnerSticks, PcStates, LockHeld

THEOREM SafeFromInv == Inv => MutualExclusion /\ RightName /\ OneWinner /\ WinnerSticks /\ NoRace
  BY DEF Inv, OneWinner, NoRace

THEOREM NextInv == Inv /\ [Next]_vars => Inv' /\ WritesUnderLock
<1> SUFFICES ASSUME Inv, [Next]_vars PROVE Inv' /\ WritesUnderLock
  OBVIOUS
<1> USE NoDev, NoneFresh, ServicesNamed
<1>1. ASSUME NEW p \in Procs, NEW o \in Ops, Call(p, o) PROVE Inv' /\ WritesUnderLock
  <2>1. /\ pc' = [pc EXCEPT ![p] = "waiting"] /\ op' = [op EXCEPT ![p] = o] /\ pc[p] = "idle"
        /\ UNCHANGED <<cache, writer, readers, wins, winner, racing>>
    BY <1>1 DEF Call
  <2>2. WritesUnderLock
    BY <2>1 DEF WritesUnderLock
  <2>3. Inv'
    BY <2>1 DEF Inv, MutualExclusion, RightName, WinnerSticks, PcStates, LockHeld
  <2> QED BY <2>2, <2>3
<1>2. ASSUME NEW p \in Procs, Acquire(p) PROVE Inv' /\ WritesUnderLock
  <2>0. pc[p] = "waiting" /\ op[p] \in Ops
    BY <1>2 DEF Acquire, Inv, PcStates
  <2>1. ~NoLock(p) /\ (WantsRead(p) <=> op[p].kind = "Get")
    BY DEF NoLock, WantsRead, Dev
  <2>2. /\ pc' = [pc EXCEPT ![p] = "locked"]
        /\ UNCHANGED <<cache, op, wins, winner>>
        /\ racing' = FALSE
        /\ IF op[p].kind = "Get"
           THEN writer = None /\ readers' = readers \cup {p} /\ writer' = writer
           ELSE writer = None /\ readers = {} /\ writer' = p /\ readers' = readers
    BY <1>2, <2>0, <2>1 DEF Acquire, Inv
  <2>3. WritesUnderLock
    BY <2>2 DEF WritesUnderLock
  <2>4. Inv'
    BY <2>0, <2>2 DEF Inv, MutualExclusion, RightName, WinnerSticks, PcStates, LockHeld
  <2> QED BY <2>3, <2>4
<1>3. ASSUME NEW p \in Procs, Finish(p) PROVE Inv' /\ WritesUnderLock
  <2>0. pc[p] = "locked" /\ op[p] \in Ops /\ LockHeld(p)
    BY <1>3 DEF Finish, Inv, PcStates
  <2> DEFINE o == op[p]
  <2>k. o.kind \in {"Registry", "Get", "Remove", "Clear"}
    BY <2>0, OpsKinds
  <2>r. /\ writer' = (IF writer = p THEN None ELSE writer) /\ readers' = readers \ {p}
        /\ pc' = [pc EXCEPT ![p] = "idle"] /\ op' = [op EXCEPT ![p] = None]
        /\ racing' = FALSE
    BY <1>3, <2>0, <2>k DEF Finish, Release, Complete, Dev, Inv
  <2>1. CASE o.kind = "Registry"
    <3>0. o.svc \in Services /\ SvcName(o.svc) \in Names /\ writer = p /\ readers = {}
      BY <2>0, <2>1, OpsKinds DEF LockHeld, Inv, MutualExclusion
    <3> DEFINE n == SvcName(o.svc)
    <3>1. IF cache[n] # None
          THEN UNCHANGED <<cache, wins, winner>>
          ELSE /\ cache' = [cache EXCEPT ![n] = o.svc]
               /\ wins' = [wins EXCEPT ![n] = @ + 1]
               /\ winner' = [winner EXCEPT ![n] = o.svc]
      BY <1>3, <2>0, <2>1 DEF Finish, Dev
    <3>2. WritesUnderLock
      BY <3>0 DEF WritesUnderLock
    <3>3. Inv'
      BY <2>r, <3>0, <3>1 DEF Inv, MutualExclusion, RightName, WinnerSticks, PcStates, LockHeld, SvcName
    <3> QED BY <3>2, <3>3
  <2>2. CASE o.kind = "Get"
    <3>1. UNCHANGED <<cache, wins, winner>>
      BY <1>3, <2>0, <2>2 DEF Finish, Dev
    <3>2. WritesUnderLock
      BY <3>1 DEF WritesUnderLock
    <3>3. Inv'
      BY <2>r, <2>0, <2>2, <3>1 DEF Inv, MutualExclusion, RightName, WinnerSticks, PcStates, LockHeld
    <3> QED BY <3>2, <3>3
  <2>3. CASE o.kind = "Remove"
    <3>0. o.name \in Names /\ writer = p /\ readers = {}
      BY <2>0, <2>3, OpsKinds DEF LockHeld, Inv, MutualExclusion
    <3>1. /\ cache' = [cache EXCEPT ![o.name] = None]
          /\ wins' = [wins EXCEPT ![o.name] = 0]
          /\ winner' = [winner EXCEPT ![o.name] = None]
      BY <1>3, <2>0, <2>3 DEF Finish, Dev
    <3>2. WritesUnderLock
      BY <3>0 DEF WritesUnderLock
    <3>3. Inv'
      BY <2>r, <3>0, <3>1 DEF Inv, MutualExclusion, RightName, WinnerSticks, PcStates, LockHeld
    <3> QED BY <3>2, <3>3
  <2>4. CASE o.kind = "Clear"
    <3>0. writer = p /\ readers = {}
      BY <2>0, <2>4 DEF LockHeld, Inv, MutualExclusion
    <3>1. /\ cache' = [n \in Names |-> None]
          /\ wins' = [n \in Names |-> 0]
          /\ winner' = [n \in Names |-> None]
      BY <1>3, <2>0, <2>4 DEF Finish, Dev
    <3>2. WritesUnderLock
      BY <3>0 DEF WritesUnderLock
    <3>3. Inv'
      BY <2>r, <3>0, <3>1 DEF Inv, MutualExclusion, RightName, WinnerSticks, PcStates, LockHeld
    <3> QED BY <3>2, <3>3
  <2> QED BY <2>k, <2>1, <2>2, <2>3, <2>4
<1>4. CASE UNCHANGED vars
  BY <1>4 DEF vars, Inv, MutualExclusion, RightName, WinnerSticks, LockHeld, WritesUnderLock
<1> QED BY <1>1, <1>2, <1>3, <1>4 DEF Next

THEOREM Safety == Spec => [](MutualExclusion /\ RightName /\ OneWinner /\ WinnerSticks /\ NoRace)
<1>1. Inv /\ [Next]_vars => Inv'
  BY NextInv
<1>2. Spec => []Inv
  BY InitInv, <1>1, PTL DEF Spec
<1> QED BY <1>2, SafeFromInv, PTL

THEOREM LockedWrites == Spec => [][WritesUnderLock]_vars
<1>1. Inv /\ [Next]_vars => Inv'
  BY NextInv
<1>2. Inv /\ [Next]_vars => WritesUnderLock
  BY NextInv
<1>3. Spec => []Inv
  BY InitInv, <1>1, PTL DEF Spec
<1> QED BY <1>2, <1>3, PTL DEF Spec
=============================================================================
