SPECIFICATION Spec
CONSTANTS
  Calls <- AllCalls
  BreakPair = FALSE
CHECK_DEADLOCK FALSE
INVARIANT ExactWidth
INVARIANT ReadBack
INVARIANT PairRelation
INVARIANT WrapRefused
INVARIANT Export
