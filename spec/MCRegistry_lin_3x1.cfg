SPECIFICATION Spec
CONSTANTS
  p1 = p1
  p2 = p2
  p3 = p3
  None = None
  Procs <- MCProcs3
  Names <- MCNames
  Services <- MCServices
  MaxCalls = 1
  Deviations <- NoDev

CHECK_DEADLOCK FALSE
INVARIANT TypeOK
INVARIANT Linearizable
INVARIANT MutualExclusion
INVARIANT OneWinner
INVARIANT WinnerSticks
