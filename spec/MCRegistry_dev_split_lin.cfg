SPECIFICATION Spec
CONSTANTS
  p1 = p1
  p2 = p2
  p3 = p3
  None = None
  Procs <- MCProcs2
  Names <- MCNames
  Services <- MCServices
  MaxCalls = 1
  Deviations <- DevSplit

CHECK_DEADLOCK FALSE
INVARIANT TypeOK
INVARIANT Linearizable
