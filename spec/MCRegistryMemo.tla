--------------------------- MODULE MCRegistryMemo ---------------------------
EXTENDS RegistryMemo
CONSTANTS p1, p2
MCNames == {"A"}
MCServices == {<<"A", 1>>, <<"A", 2>>}
MCProcs2 == {p1, p2}
NoDev == {}
=============================================================================
