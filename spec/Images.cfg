SPECIFICATION Spec
INVARIANT SelfDecodes
CHECK_DEADLOCK FALSE
