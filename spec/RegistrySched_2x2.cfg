SPECIFICATION SSpec
CONSTANTS
  p1 = p1
  p2 = p2
  p3 = p3
  None = None
  Procs <- MCProcs2
  Names <- MCNames
  Services <- MCServices
  MaxCalls = 2
  Deviations <- NoDev
CHECK_DEADLOCK FALSE
INVARIANT Export
INVARIANT MutualExclusion
INVARIANT OneWinner
INVARIANT WinnerSticks
