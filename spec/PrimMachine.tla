----------------------------- MODULE PrimMachine -----------------------------
(***************************************************************************)
(* The codec primitives as a state machine over one buffer (design model   *)
(* for C03, C13, C18): a writer call appends PWrite's bytes (or refuses),  *)
(* the matching reader call then consumes them.  Exhaustive over a finite  *)
(* family of calls (MCPrims).  Invariants:                                 *)
(*   ExactWidth   a fixed-width text write appends exactly N bytes (C13)   *)
(*   ReadBack     reading back what was written returns the value: always  *)
(*                for numbers, prefixed text and lists; for fixed text     *)
(*                exactly when the value is canonical, and in general the  *)
(*                N-byte image with only the pad stripped from its side    *)
(*                (C13); and it consumes exactly what was appended (C07)   *)
(*   PairRelation the little-endian variant's bytes are the big-endian     *)
(*                variant's with every multi-byte integer reversed and     *)
(*                nothing else changed (C03)                               *)
(*   WrapRefused  a length that does not fit its prefix is refused, one    *)
(*                that fits is written with that very length (C18)         *)
(*   SpareIgnored what a writer appends (or that it refuses) is a function *)
(*                of the call alone: it does not depend on what an earlier *)
(*                use of a recycled buffer left in the spare capacity      *)
(*                behind the buffer's end (C13, C18; C06 at this level)    *)
(* The buffer is the code's bytes.Buffer: mem, rd and `spare`, the bytes   *)
(* lying in the backing array behind the buffer's end.  Two initial        *)
(* states: a fresh buffer (no spare bytes) and a recycled one (SpareLen    *)
(* stale bytes).  Deviations (SpareDev) that must each violate an          *)
(* invariant: "PadFromSpare" (NUL pad bytes are not written, the spare     *)
(* capacity is assumed to be zero), "RoomySkipsCheck" (the prefix check is *)
(* part of growing the buffer and is skipped when there is room).          *)
(* Every behaviour (call, bytes, result of the read-back) is exported and  *)
(* replayed on the real primitives (direction A).                          *)
(***************************************************************************)
EXTENDS Prims, SequencesExt

CONSTANTS Calls, BreakPair,   \* BreakPair: sensitivity switch - render list elements big-endian in the LE variant
          SpareLen, SpareDev  \* stale bytes behind the end of a recycled buffer; "none" | "PadFromSpare" | "RoomySkipsCheck"

VARIABLES mem, rd, phase, call, wres, rres,
          spare,      \* the bytes behind the buffer's end in its backing array
          recycled    \* this behaviour started on a recycled buffer
vars == <<mem, rd, phase, call, wres, rres, spare, recycled>>
StaleBytes == [i \in 1..SpareLen |-> 238 - (i % 7)]

ReaderOf(fn) ==
  CASE fn = "WriteBasicType" -> "ReadBasicType" [] fn = "WriteBasicTypeList" -> "ReadBasicTypeList"
    [] fn = "WriteString" -> "ReadString" [] fn = "WriteFixedString" -> "ReadFixedString"
    [] fn = "WriteFixedStringWithPadding" -> "ReadFixedStringTrimPadding"
    [] fn = "WriteFixedStringList" -> "ReadFixedStringList"
    [] fn = "WriteFixedStringListWithPadding" -> "ReadFixedStringListTrimPadding"
    [] fn = "WriteStringList" -> "ReadStringList"

(* the model's writer: PWrite, or the named deviation *)
MWrite(c) ==
  IF BreakPair /\ c.a.le /\ c.fn = "WriteBasicTypeList"
  THEN LET be == PWrite(c.fn, [c.a EXCEPT !.le = FALSE])
           le == PWrite(c.fn, c.a)
       IN IF ~le.ok THEN le
          ELSE [le EXCEPT !.bytes = SubSeq(le.bytes, 1, c.a.pw) \o SubSeq(be.bytes, c.a.pw + 1, Len(be.bytes))]
  ELSE LET W == PWrite(c.fn, c.a) IN
       IF SpareDev = "PadFromSpare" /\ c.fn = "WriteFixedStringWithPadding" /\ c.a.pad = 0 /\ W.ok /\ Len(spare) >= Len(W.bytes)
       THEN (* the value is laid out in the spare capacity, the NUL pad bytes are "already there" *)
            LET k == Len(c.a.s) IN
            [W EXCEPT !.bytes = [i \in 1..Len(W.bytes) |->
                 IF (c.a.left /\ i <= Len(W.bytes) - k) \/ (~c.a.left /\ i > k) THEN spare[i] ELSE W.bytes[i]]]
       ELSE IF SpareDev = "RoomySkipsCheck" /\ c.fn = "WriteString" /\ ~W.ok /\ Len(spare) >= c.a.pw + Len(TextOf(c.a))
       THEN [W EXCEPT !.ok = TRUE, !.bytes = Ord(EndOf(c.a), Digits(Len(TextOf(c.a)) % 256, c.a.pw)) \o TextOf(c.a)]
       ELSE W

Init == /\ mem = <<>> /\ rd = 0 /\ phase = "idle" /\ call = [fn |-> "none"] /\ wres = [ok |-> TRUE] /\ rres = [ok |-> TRUE]
        /\ spare \in {<<>>, StaleBytes} /\ recycled = (spare # <<>>)

DoWrite(c) ==
  /\ phase = "idle"
  /\ LET W == MWrite(c) IN
     /\ wres' = W
     /\ mem' = IF W.ok THEN mem \o W.bytes ELSE mem
     /\ spare' = IF W.ok THEN Drop(spare, IF Len(W.bytes) < Len(spare) THEN Len(W.bytes) ELSE Len(spare)) ELSE spare
  /\ call' = c /\ phase' = "written" /\ UNCHANGED <<rd, rres, recycled>>

DoRead ==
  /\ phase = "written" /\ wres.ok
  /\ LET R == PRead(ReaderOf(call.fn), call.a, Drop(mem, rd)) IN
     /\ rres' = R
     /\ rd' = IF R.ok THEN rd + R.used ELSE rd
  /\ phase' = "read" /\ UNCHANGED <<mem, call, wres, spare, recycled>>

Next == (\E c \in Calls : DoWrite(c)) \/ DoRead
Spec == Init /\ [][Next]_vars

---------------------------------------------------------------------------
IsFixed(fn) == fn \in {"WriteFixedString", "WriteFixedStringWithPadding"}
IsFixedList(fn) == fn \in {"WriteFixedStringList", "WriteFixedStringListWithPadding"}
PadOf(c) == IF c.fn \in {"WriteFixedString", "WriteFixedStringList"} THEN 32 ELSE c.a.pad
LeftOf(c) == IF c.fn \in {"WriteFixedString", "WriteFixedStringList"} THEN FALSE ELSE c.a.left

ExactWidth == phase = "written" /\ IsFixed(call.fn) => wres.ok /\ Len(wres.bytes) = call.a.n

ReadBack ==
  phase = "read" =>
    /\ rres.ok /\ rres.used = Len(wres.bytes)
    /\ LET x == ArgOf(call.fn, call.a) IN
       IF IsFixed(call.fn)
       THEN /\ rres.ret = TrimFixed(PadFixed(x, call.a.n, PadOf(call), LeftOf(call)), PadOf(call), LeftOf(call))
            /\ CanonFixed(x, call.a.n, PadOf(call), LeftOf(call)) => rres.ret = x
       ELSE IF IsFixedList(call.fn)
       THEN /\ Len(rres.ret) = Len(x)
            /\ \A i \in 1..Len(x) : CanonFixed(x[i], call.a.n, PadOf(call), LeftOf(call)) => rres.ret[i] = x[i]
       ELSE rres.ret = x

PairRelation ==
  phase = "written" /\ wres.ok /\ "le" \in DOMAIN call.a /\ call.a.le =>
    LET be == PWrite(call.fn, [call.a EXCEPT !.le = FALSE]) IN
    /\ be.ok /\ OnlyByteOrderDiffers(wres.bytes, be.bytes, be.mask)
    /\ \A s \in SlotStarts(be.mask) : \A j \in 0..(SlotW(be.mask, s) - 1) : wres.bytes[s + j] = be.bytes[s + SlotW(be.mask, s) - 1 - j]

LenOfArg(c) == Len(ArgOf(c.fn, c.a))
WrapRefused ==
  phase = "written" /\ "pw" \in DOMAIN call.a /\ call.fn # "WriteStringList" =>
    /\ wres.ok <=> Fits(LenOfArg(call), call.a.pw)
    /\ wres.ok => ValCap(Ord(EndOf(call.a), SubSeq(wres.bytes, 1, call.a.pw))) = LenOfArg(call)

SpareIgnored == phase = "written" => LET W == PWrite(call.fn, call.a) IN wres.ok = W.ok /\ (W.ok => wres.bytes = W.bytes)

Export == phase \in {"read"} \/ (phase = "written" /\ ~wres.ok) =>
            PrintT(<<"PRIMCASE", ToJson([fn |-> call.fn, a |-> call.a, ok |-> wres.ok, bytes |-> IF wres.ok THEN wres.bytes ELSE <<>>,
                                         rfn |-> ReaderOf(call.fn), ret |-> IF wres.ok THEN rres.ret ELSE <<>>,
                                         recycled |-> recycled, stale |-> IF recycled THEN StaleBytes ELSE <<>>])>>)
=============================================================================
