------------------------------- MODULE Channel -------------------------------
(***************************************************************************)
(* Level 0: a message buffer is a FIFO channel of messages.                *)
(*   Send(v)   Encode appends message v                                    *)
(*   Recv      Decode delivers the OLDEST message still in the channel and *)
(*             removes it (C01: what was sent is what is received; C07:    *)
(*             messages stream in order)                                   *)
(*   Disturb   anything else a caller does to the buffer (Next, Reset,     *)
(*             raw writes, a decode of foreign bytes) may only DROP        *)
(*             messages from the front - it never invents or reorders them *)
(* WireMachine refines this specification under the mapping "the messages  *)
(* whose encodings are intact in the unread region" (PROPERTY              *)
(* ChannelRefinement in MCWire_*.cfg): the byte-level format is prefix-    *)
(* free and self-delimiting, so the bytes parse back to the messages.      *)
(***************************************************************************)
EXTENDS Integers, Sequences

VARIABLES chan, got
cvars == <<chan, got>>

CInit == chan = <<>>
Send == Len(chan') = Len(chan) + 1 /\ SubSeq(chan', 1, Len(chan)) = chan
Recv == chan # <<>> /\ got' = Head(chan) /\ chan' = Tail(chan)
Disturb == \E k \in 0..Len(chan) : chan' = SubSeq(chan, k + 1, Len(chan))
CNext == Send \/ Recv \/ Disturb
CSpec == CInit /\ [][CNext]_cvars
=============================================================================
