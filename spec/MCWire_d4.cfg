SPECIFICATION Spec
CONSTANTS
  MaxOps = 4
  Deviations <- NoDev
  JunkBytes <- MCJunk
  RegistryOps = TRUE
  Receivers = FALSE
  OpSet <- AllOps
CHECK_DEADLOCK FALSE
VIEW ViewNoHist
INVARIANT FramesRight
INVARIANT ObjectReports
INVARIANT HeadDecodes
INVARIANT ChannelShape
PROPERTY AppendOnly
PROPERTY ChannelRefinement
