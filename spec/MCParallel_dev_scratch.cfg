SPECIFICATION Spec
CONSTANTS
  p1 = p1
  p2 = p2
  p3 = p3
  Procs <- MCProcs2
  Values <- MCValues
  MaxOps = 2
  Deviations <- DevScratch
  Side = "SIDE"
CHECK_DEADLOCK FALSE
INVARIANT NonInterference
