------------------------------ MODULE Hostile ------------------------------
(***************************************************************************)
(* Direction A for C09/C10: the SPECIFICATION generates the hostile inputs.*)
(* For every sample value (read from VERIF_VALUES) it takes the pinned     *)
(* rendering EncMsg(T, v) and, for every length/count prefix position of   *)
(* the layout (found through the integer-slot mask), emits the bytes up to *)
(* the prefix, the prefix set to max, max-1, 2^(8w-1) and "one more than   *)
(* what follows", and a few of the following bytes.  Together with each    *)
(* input it prints what the decode action of the specification does with   *)
(* it (ok / err and the abstract allocation meter `reserve`).  The inputs  *)
(* are then run on the real decoders under the sensors.                    *)
(***************************************************************************)
EXTENDS Codec

Values == ndJsonDeserialize(IOEnv.VERIF_VALUES)
VARIABLE i
PrefixKinds == {KListCount, KStrPrefix, KObjCount, KLen}   \* length/count prefixes and the frame length field

MinN(a, b) == IF a < b THEN a ELSE b

HostilePrefixes(w, remaining) ==
  { Rep(255, w),
    [k \in 1..w |-> IF k = w THEN 254 ELSE 255],
    [k \in 1..w |-> IF k = 1 THEN 128 ELSE 0],
    Digits(remaining + 1, w) }

HostileOf(T, v) ==
  LET E == EncMsg(T, v)
      e == EndianOf(T)
      b == E.bytes
      slots == IF E.ok THEN {s \in SlotStarts(E.mask) : SlotKind(E.mask, s) \in PrefixKinds} ELSE {}
  IN UNION { { Take(b, s - 1) \o Ord(e, p) \o SubSeq(b, s + SlotW(E.mask, s), MinN(s + SlotW(E.mask, s) + keep - 1, Len(b)))
               : p \in HostilePrefixes(SlotW(E.mask, s), Len(b) - (s + SlotW(E.mask, s) - 1)) }
             : s \in slots, keep \in {0, 6, Len(b)} }

Report(T, w) == LET D == Dec(T, w) IN [t |-> T, w |-> w, ok |-> D.ok, reserve |-> D.reserve, why |-> D.why]

Init == i = 1
Next == /\ i <= Len(Values)
        /\ LET x == Values[i]
               hs == HostileOf(x.t, x.v)
           IN PrintT(<<"HOSTILE", ToJson(SetToSeq({Report(x.t, w) : w \in hs}))>>)
        /\ i' = i + 1
Spec == Init /\ [][Next]_i

(* the decode action of the specification never reserves more than is present *)
ReserveBounded == i <= Len(Values) => \A w \in HostileOf(Values[i].t, Values[i].v) : Dec(Values[i].t, w).reserve <= Len(w)
=============================================================================
