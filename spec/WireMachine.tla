----------------------------- MODULE WireMachine -----------------------------
(***************************************************************************)
(* The implementation-shaped byte machine (level 1 of DESIGN.md 2.1).      *)
(*                                                                         *)
(* State: one bytes.Buffer as the code sees it - mem (all bytes written    *)
(* since the last Reset) and rd (read offset; Len() and Bytes() of the Go  *)
(* buffer are RELATIVE to the unread part) - and the message objects,      *)
(* including the fields Encode writes back.  Messages come from            *)
(* VERIF_VALUES (sample values of real pinned types, made by the harness). *)
(*                                                                         *)
(* A frame Encode is the composition of the code's six steps, written as   *)
(* state transformers with the code's own offset arithmetic:               *)
(*   Header       append the header fields                                 *)
(*   Placeholder  lenPos := Len(unread); append 00 00 00 00                *)
(*   Body         bodyStart := Len(unread); append the body's encoding     *)
(*   Patch        n := Len(unread) - bodyStart; write n at unread[lenPos]  *)
(*   Checksum     c := Alg(bytes of THIS frame)  (registry look-up)        *)
(*   Trailer      append c                                                 *)
(* Public operations (one action each): Encode, Decode, Next(k), Reset,    *)
(* WriteRaw, SetStale (the caller leaves junk in the computed fields).     *)
(*                                                                         *)
(* Checked here, for EVERY history of at most MaxOps operations:           *)
(*   FramesRight      every frame ever completed in the buffer has the     *)
(*                    pinned rendering EncMsg(T, v): length field = body   *)
(*                    bytes (C04), checksum = algorithm over exactly this  *)
(*                    frame (C05), independent of the history (C06)        *)
(*   AppendOnly       an operation other than Reset never changes bytes    *)
(*                    already in the buffer, Encode never moves rd (C06)   *)
(*   ObjectReports    after Encode the object holds the correct length     *)
(*                    and checksum (C04, C05)                              *)
(*   HeadDecodes      the channel view: Decode of an aligned head frame    *)
(*                    succeeds, consumes exactly its bytes and returns the *)
(*                    message that was encoded (C01, C07) - the refinement *)
(*                    of the byte machine to a FIFO channel                *)
(* Deviations (must each violate an invariant):                            *)
(*   FrameChecksum_OverUnread  checksum over the whole unread buffer       *)
(*   Patch_AbsoluteOffset      length patched at mem[lenPos] (ignoring rd) *)
(*   Len_IncludesTrailer       length measured after the trailer           *)
(*   Checksum_BeforePatch      checksum computed before the length patch   *)
(*   Scratch_KeptOnError       the body is staged in a pooled buffer that  *)
(*                             a REFUSED encode does not empty: the next   *)
(*                             frame carries the leftover in front of its  *)
(*                             body (the universe holds a frame whose body *)
(*                             is refused after it wrote something)        *)
(*   Receiver_KeepsBody        a decode that follows a REFUSED decode into  *)
(*                             the same receiver keeps the body that the    *)
(*                             receiver held (must violate                  *)
(*                             ReceiverIndependent)                         *)
(* Receivers (Receivers = TRUE): every Decode(T) goes into ONE receiver    *)
(* object per type, kept for the whole history (rcv[T]); DecodeRefused(T)  *)
(* is a decode the interpreter rejects, after which the caller drops the   *)
(* buffer (what the code leaves in buffer and receiver on an error is not  *)
(* specified, so the model does not look at either).  ReceiverIndependent: *)
(* what a successful decode yields is a function of the bytes alone - not  *)
(* of what the receiver held, nor of a refusal before it (C15, and C01 /   *)
(* C07 / C12 for reused receivers).                                        *)
(* Registry x frames (RegistryOps = TRUE): RemoveSvc / RestoreSvc of the   *)
(* checksum services; a frame encoded while its service is absent keeps    *)
(* the caller's checksum (what the code does; C05 assumes the start-up     *)
(* registry) - FramesRight then compares with ExpectedEnc.                 *)
(***************************************************************************)
EXTENDS Codec, SequencesExt

CONSTANTS MaxOps, Deviations, JunkBytes, RegistryOps,  \* RegistryOps: include Remove/Restore of checksum services
          Receivers,                                  \* decodes go into one kept receiver per type; refused decodes are explored
          OpSet                                       \* the public operations of this configuration (a subset of AllOps)

Msgs == ndJsonDeserialize(IOEnv.VERIF_VALUES)      \* sequence of [t, v]
MsgIds == 1..Len(Msgs)
Dev(d) == d \in Deviations

VARIABLES mem, rd, obj, reg, frames, q, lead, nops, hist, last,
          scratch,    \* what a pooled staging buffer of the frame encoders holds between calls (always empty in the faithful model)
          rcv,        \* rcv[T]: what the kept receiver of type T holds (the last message decoded into it)
          rfl         \* rfl[T]: "fresh" | "used" | "refused" (the last decode into it was refused)
vars == <<mem, rd, obj, reg, frames, q, lead, nops, hist, last, scratch, rcv, rfl>>
AllOps == {"encode", "decode", "refused", "next", "reset", "write", "stale", "registry"}    \* ("partial" only where a configuration lists it)
UTypes == {Msgs[m].t : m \in MsgIds}

Unread == Drop(mem, rd)

Init ==
  /\ mem = <<>> /\ rd = 0
  /\ obj = [m \in MsgIds |-> Msgs[m].v]
  /\ reg = AlgNames
  /\ frames = <<>>          \* ghost: [s, e, t, pinned] absolute extent of every completed frame + its pinned rendering
  /\ q = <<>> /\ lead = 0   \* ghost: channel view of the unread region (as in TraceWire)
  /\ nops = 0 /\ hist = <<>>
  /\ last = [op |-> "init"]
  /\ scratch = <<>>
  /\ rcv = [T \in UTypes |-> NilV]
  /\ rfl = [T \in UTypes |-> "fresh"]

---------------------------------------------------------------------------
(* The six steps of a length-computing frame encoder, as transformers of a *)
(* record s = [mem, rd, v, ok, ...].                                       *)
BodyField(T) == LET fs == FieldsOf(T) IN fs[CHOOSE i \in 1..Len(fs) : fs[i].kind = "body"]
URLen(s) == Len(s.mem) - s.rd

StepHeader(T, s) == [s EXCEPT !.mem = @ \o HdrBytes(T, EndianOf(T), s.v, 1), !.entry = URLen(s)]
StepPlaceholder(T, s) == [s EXCEPT !.mem = @ \o <<0, 0, 0, 0>>, !.lenpos = URLen(s)]
StepBody(T, s) ==
  LET f == BodyField(T)
      bv == s.v[f.name]
      r == IF IsNil(bv) THEN [ok |-> TRUE, bytes |-> <<>>, val |-> NilV] ELSE EncMsg(bv["_t"], bv)
  IN [s EXCEPT !.ok = r.ok, !.mem = @ \o s.pre \o r.bytes, !.bodystart = URLen(s), !.v = [@ EXCEPT ![f.name] = r.val], !.staged = s.pre \o r.bytes]
StepPatch(T, s) ==
  LET n == Digits(URLen(s) - s.bodystart + (IF Dev("Len_IncludesTrailer") THEN TrailerLen(T) ELSE 0), 4)
      d == Ord(EndianOf(T), n)
      at == IF Dev("Patch_AbsoluteOffset") THEN s.lenpos ELSE s.rd + s.lenpos      \* index into mem (0-based)
  IN [s EXCEPT !.mem = [i \in 1..Len(s.mem) |-> IF i > at /\ i <= at + 4 THEN d[i - at] ELSE s.mem[i]],
               !.v = [@ EXCEPT ![LenName(T)] = n]]
StepChecksum(T, s, registry) ==
  IF ~HasKind(T, "checksum") THEN s
  ELSE LET covered == IF Dev("FrameChecksum_OverUnread") THEN Drop(s.mem, s.rd) ELSE Drop(s.mem, s.rd + s.entry)
           c == IF ChecksumAlg(T) \in registry THEN Alg(ChecksumAlg(T), covered) ELSE s.v[CsumName(T)]
       IN [s EXCEPT !.v = [@ EXCEPT ![CsumName(T)] = c]]
StepTrailer(T, s) ==
  IF ~HasKind(T, "checksum") THEN s ELSE [s EXCEPT !.mem = @ \o Ord(EndianOf(T), s.v[CsumName(T)])]

(* pre: what the staging buffer still held when the call began (deviation Scratch_KeptOnError: the body is staged in *)
(* a pooled buffer that the error path returns to the pool without emptying it)                                     *)
FrameEncode(T, v, m0, r0, registry, pre) ==
  LET s0 == [mem |-> m0, rd |-> r0, v |-> v, ok |-> TRUE, entry |-> 0, lenpos |-> 0, bodystart |-> 0, pre |-> pre, staged |-> <<>>]
      s1 == StepHeader(T, s0)
      s2 == StepPlaceholder(T, s1)
      s3 == StepBody(T, s2)
      s4 == IF Dev("Checksum_BeforePatch") THEN StepPatch(T, StepChecksum(T, s3, registry)) ELSE StepChecksum(T, StepPatch(T, s3), registry)
  IN IF s3.ok THEN StepTrailer(T, s4) ELSE s3

(* any message: frames with a computed length take the six steps, everything else is one append *)
EncodeOf(T, v, m0, r0, registry, pre) ==
  IF T \in FrameTypes THEN FrameEncode(T, v, m0, r0, registry, pre)
  ELSE LET E == EncMsg(T, v) IN [mem |-> m0 \o E.bytes, rd |-> r0, v |-> E.val, ok |-> E.ok, staged |-> <<>>]

---------------------------------------------------------------------------
QLen == LET RECURSIVE S(_) S(i) == IF i = 0 THEN 0 ELSE Len(q[i].bytes) + S(i - 1) IN S(Len(q))

Log(rec) == /\ hist' = Append(hist, rec) /\ nops' = nops + 1 /\ last' = rec

Encode(m) ==
  /\ nops < MaxOps /\ "encode" \in OpSet
  /\ LET T == Msgs[m].t
         s == EncodeOf(T, obj[m], mem, rd, reg, IF Dev("Scratch_KeptOnError") THEN scratch ELSE <<>>)
         app == Drop(s.mem, Len(mem))
     IN /\ mem' = s.mem /\ rd' = s.rd
        /\ scratch' = IF Dev("Scratch_KeptOnError") /\ T \in FrameTypes /\ ~s.ok THEN s.staged ELSE <<>>
        /\ obj' = [obj EXCEPT ![m] = s.v]
        /\ frames' = IF s.ok THEN Append(frames, [s |-> Len(mem), e |-> Len(s.mem), t |-> T, pinned |-> ExpectedEnc(T, obj[m], reg).bytes,
                                                   summed |-> (T \in CsumTypes /\ ChecksumAlg(T) \in reg)]) ELSE frames
        /\ IF s.ok /\ Len(Unread) = lead + QLen
           THEN q' = Append(q, [t |-> T, v |-> obj[m], vp |-> s.v, bytes |-> app]) /\ UNCHANGED lead
           ELSE UNCHANGED <<q, lead>>
        /\ Log([op |-> "encode", m |-> m, t |-> T, res |-> IF s.ok THEN "ok" ELSE "err", post |-> Drop(s.mem, s.rd), vpost |-> s.v])
  /\ UNCHANGED <<reg, rcv, rfl>>

(* the body (or extension) part of a message of type T, if it has one *)
BodyNameOf(T) == LET fs == FieldsOf(T) IN
  IF \E i \in 1..Len(fs) : fs[i].kind = "body" THEN (fs[CHOOSE i \in 1..Len(fs) : fs[i].kind = "body"]).name ELSE ""
(* deviation Receiver_KeepsBody: the decoder re-uses the body object the receiver already holds *)
Leak(T, old, new) ==
  IF BodyNameOf(T) # "" /\ old # NilV THEN [new EXCEPT ![BodyNameOf(T)] = old[BodyNameOf(T)]] ELSE new

Decode(T) ==
  /\ nops < MaxOps /\ "decode" \in OpSet
  /\ LET D == Dec(T, Unread)
         got == IF Dev("Receiver_KeepsBody") /\ Receivers /\ rfl[T] = "refused" THEN Leak(T, rcv[T], D.val) ELSE D.val
     IN
     /\ D.ok           \* accepted inputs (refused ones: DecodeRefused)
     /\ rd' = rd + D.used
     /\ IF lead = 0 /\ Len(q) > 0 /\ D.used = Len(q[1].bytes) THEN q' = Tail(q) /\ UNCHANGED lead
        ELSE q' = <<>> /\ lead' = Len(Unread) - D.used
     /\ IF Receivers THEN rcv' = [rcv EXCEPT ![T] = got] /\ rfl' = [rfl EXCEPT ![T] = "used"] ELSE UNCHANGED <<rcv, rfl>>
     /\ Log([op |-> "decode", t |-> T, res |-> "ok", post |-> Drop(mem, rd + D.used), vpost |-> got, used |-> D.used,
             bytesonly |-> D.val, kept |-> Receivers])
  /\ UNCHANGED <<mem, obj, reg, frames, scratch>>

(* a decode the interpreter refuses (wrong type for these bytes, a frame cut by an earlier Next, raw bytes).  What the *)
(* code leaves in the buffer and in the receiver is not specified: the caller drops the buffer, the receiver stays in *)
(* use - and the next successful decode into it must not show any of that.                                            *)
DecodeRefused(T) ==
  /\ nops < MaxOps /\ Receivers /\ "refused" \in OpSet
  /\ Len(Unread) > 0 /\ ~Dec(T, Unread).ok
  /\ mem' = <<>> /\ rd' = 0 /\ frames' = <<>> /\ q' = <<>> /\ lead' = 0
  /\ rfl' = [rfl EXCEPT ![T] = "refused"]
  /\ Log([op |-> "refused", t |-> T, res |-> "err", post |-> <<>>])
  /\ UNCHANGED <<obj, reg, scratch, rcv>>

NextK(k) ==
  /\ nops < MaxOps /\ "next" \in OpSet /\ k > 0 /\ k <= Len(Unread)
  /\ rd' = rd + k
  /\ IF k <= lead THEN lead' = lead - k /\ UNCHANGED q ELSE q' = <<>> /\ lead' = Len(Unread) - k
  /\ Log([op |-> "next", k |-> k, post |-> Drop(mem, rd + k)])
  /\ UNCHANGED <<mem, obj, reg, frames, scratch, rcv, rfl>>

Reset ==
  /\ nops < MaxOps /\ "reset" \in OpSet /\ mem # <<>>
  /\ mem' = <<>> /\ rd' = 0 /\ frames' = <<>> /\ q' = <<>> /\ lead' = 0
  /\ Log([op |-> "reset", post |-> <<>>])
  /\ UNCHANGED <<obj, reg, scratch, rcv, rfl>>

WriteRaw ==
  /\ nops < MaxOps /\ "write" \in OpSet
  /\ mem' = mem \o JunkBytes
  /\ IF Len(q) = 0 THEN lead' = Len(Unread) + Len(JunkBytes) ELSE UNCHANGED lead
  /\ Log([op |-> "write", bytes |-> JunkBytes, post |-> Unread \o JunkBytes])
  /\ UNCHANGED <<rd, obj, reg, frames, q, scratch, rcv, rfl>>

(* a partial segment arrives: the first half of a message's encoding is appended (what a receive loop sees when a frame *)
(* is split across TCP segments); a decode of it is refused (C11), and with kept receivers the refusal comes after the *)
(* decoder has read the discriminator and part of the body                                                             *)
Partial(m) ==
  /\ nops < MaxOps /\ "partial" \in OpSet
  /\ LET b == ExpectedEnc(Msgs[m].t, obj[m], reg).bytes
         pre == SubSeq(b, 1, Len(b) \div 2)
     IN /\ Len(pre) > 0
        /\ mem' = mem \o pre
        /\ IF Len(q) = 0 THEN lead' = Len(Unread) + Len(pre) ELSE UNCHANGED lead
        /\ Log([op |-> "write", bytes |-> pre, post |-> Unread \o pre])
  /\ UNCHANGED <<rd, obj, reg, frames, q, scratch, rcv, rfl>>

(* the caller leaves junk in the self-computed fields *)
SetStale(m) ==
  /\ nops < MaxOps /\ "stale" \in OpSet /\ Msgs[m].t \in FrameTypes
  /\ LET T == Msgs[m].t
         v1 == [obj[m] EXCEPT ![LenName(T)] = <<255, 255, 255, 255>>]
         v2 == IF HasKind(T, "checksum") THEN [v1 EXCEPT ![CsumName(T)] = <<222, 173, 190, 239>>] ELSE v1
     IN /\ obj[m] # v2
        /\ obj' = [obj EXCEPT ![m] = v2]
        /\ Log([op |-> "stale", m |-> m, t |-> T, vpost |-> v2])
  /\ UNCHANGED <<mem, rd, reg, frames, q, lead, scratch, rcv, rfl>>

(* registry x frames: the application removes / re-registers a checksum service *)
UsedAlgs == {ChecksumAlg(Msgs[m].t) : m \in {m \in MsgIds : Msgs[m].t \in CsumTypes}}
RemoveSvc(a) ==
  /\ nops < MaxOps /\ RegistryOps /\ "registry" \in OpSet /\ a \in reg
  /\ reg' = reg \ {a}
  /\ Log([op |-> "regremove", alg |-> a])
  /\ UNCHANGED <<mem, rd, obj, frames, q, lead, scratch, rcv, rfl>>
RestoreSvc(a) ==
  /\ nops < MaxOps /\ RegistryOps /\ "registry" \in OpSet /\ a \notin reg
  /\ reg' = reg \cup {a}
  /\ Log([op |-> "regrestore", alg |-> a])
  /\ UNCHANGED <<mem, rd, obj, frames, q, lead, scratch, rcv, rfl>>

Next == \/ \E m \in MsgIds : Encode(m) \/ SetStale(m) \/ Partial(m)
        \/ \E a \in UsedAlgs : RemoveSvc(a) \/ RestoreSvc(a)
        \/ \E T \in UTypes : Decode(T) \/ DecodeRefused(T)
        \/ \E k \in {1, 5} \cup (IF Len(q) > 0 /\ lead = 0 THEN {Len(q[1].bytes)} ELSE {}) : NextK(k)
        \/ Reset \/ WriteRaw
Spec == Init /\ [][Next]_vars

---------------------------------------------------------------------------
FrameBytes(f) == SubSeq(mem, f.s + 1, f.e)

(* C02/C04/C05/C06 at the level of the design: whatever the history, the   *)
(* six steps produce the pinned rendering, whose length and checksum are   *)
(* right by construction of EncMsg; checked independently below too.       *)
FramesRight ==
  \A i \in 1..Len(frames) :
    LET f == frames[i] w == FrameBytes(f) IN
    /\ w = f.pinned
    /\ f.t \in FrameTypes => LenFieldOf(f.t, w) = CorrectLen(f.t, w)
    /\ f.summed => CsumFieldOf(f.t, w) = CorrectCsum(f.t, w)

ObjectReports ==
  last.op = "encode" /\ last.res = "ok" /\ last.t \in FrameTypes =>
    LET f == frames[Len(frames)] w == FrameBytes(f) IN
    /\ last.vpost[LenName(last.t)] = CorrectLen(last.t, w)
    /\ f.summed => last.vpost[CsumName(last.t)] = CorrectCsum(last.t, w)

(* channel view: the aligned head decodes to the message that was encoded, consuming exactly its bytes *)
HeadDecodes ==
  lead = 0 /\ Len(q) > 0 /\ Canonical(q[1].t, q[1].v) =>
    LET D == Dec(q[1].t, Unread) IN D.ok /\ D.used = Len(q[1].bytes) /\ D.val = q[1].vp

(* the unread region is exactly lead foreign bytes followed by the queued encodings (and trailing junk) *)
ChannelShape ==
  LET RECURSIVE Cat(_) Cat(i) == IF i = 0 THEN <<>> ELSE Cat(i - 1) \o q[i].bytes
  IN IsPrefixOf(Cat(Len(q)), Drop(Unread, lead))

AppendOnly ==
  [][ \/ last'.op \in {"reset", "refused"}     \* (a refused decode: the caller drops the buffer)
      \/ (IsPrefixOf(mem, mem') /\ rd' >= rd /\ (last'.op \in {"encode", "write", "stale"} => rd' = rd)) ]_vars

(* C15 at the level of the design (and C01/C07/C12 for kept receivers): what a successful decode yields is a function *)
(* of the bytes it read, whatever the receiver held and whatever was refused before                                  *)
ReceiverIndependent == last.op = "decode" => last.vpost = last.bytesonly

(* refinement of the FIFO channel (Channel.tla) *)
ChanView == [i \in 1..Len(q) |-> q[i].vp]
GotView == IF last.op = "decode" THEN last.vpost ELSE NilV
Ch == INSTANCE Channel WITH chan <- ChanView, got <- GotView
ChannelRefinement == Ch!CSpec

Export == nops = MaxOps => PrintT(<<"BEHAVIOUR", ToJson(hist)>>)
ViewNoHist == <<mem, rd, obj, reg, frames, q, lead, nops, last, scratch, rcv, rfl>>
=============================================================================
