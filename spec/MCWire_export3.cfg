SPECIFICATION Spec
CONSTANTS
  MaxOps = 3
  Deviations <- NoDev
  JunkBytes <- MCJunk
CHECK_DEADLOCK FALSE

INVARIANT Export
