SPECIFICATION Spec
CONSTANTS
  MaxOps = 3
  Deviations <- NoDev
  JunkBytes <- MCJunk
  RegistryOps = TRUE
CHECK_DEADLOCK FALSE

INVARIANT Export
