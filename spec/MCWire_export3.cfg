SPECIFICATION Spec
CONSTANTS
  MaxOps = 3
  Deviations <- NoDev
  JunkBytes <- MCJunk
  RegistryOps = TRUE
  Receivers = FALSE
  OpSet <- AllOps
CHECK_DEADLOCK FALSE

INVARIANT Export
