------------------------------- MODULE MCWire -------------------------------
EXTENDS WireMachine
MCJunk == <<7, 200, 9>>
NoDev == {}
DevOverUnread == {"FrameChecksum_OverUnread"}
DevAbsPatch == {"Patch_AbsoluteOffset"}
DevLenTrailer == {"Len_IncludesTrailer"}
DevCsumBeforePatch == {"Checksum_BeforePatch"}
DevScratch == {"Scratch_KeptOnError"}
DevRcvKeeps == {"Receiver_KeepsBody"}
RcvOps == {"encode", "decode", "refused", "next"}
RcvOpsF == {"encode", "decode", "refused", "partial"}     \* focus configurations: two messages of one type, depth 6, exhaustive
RcvOpsP == RcvOps \cup {"partial"}     \* with partial segments: random walks only (depth 5 would be 800,000 behaviours)
=============================================================================
