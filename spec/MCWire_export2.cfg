SPECIFICATION Spec
CONSTANTS
  MaxOps = 2
  Deviations <- NoDev
  JunkBytes <- MCJunk
CHECK_DEADLOCK FALSE

INVARIANT Export
