SPECIFICATION Spec
CONSTANTS
  MaxOps = 2
  Deviations <- NoDev
  JunkBytes <- MCJunk
  RegistryOps = FALSE
  Receivers = FALSE
  OpSet <- AllOps
CHECK_DEADLOCK FALSE

INVARIANT Export
