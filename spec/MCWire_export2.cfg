SPECIFICATION Spec
CONSTANTS
  MaxOps = 2
  Deviations <- NoDev
  JunkBytes <- MCJunk
  RegistryOps = FALSE
CHECK_DEADLOCK FALSE

INVARIANT Export
