------------------------------ MODULE Parallel ------------------------------
(***************************************************************************)
(* C20: goroutines encoding/decoding their OWN messages on their OWN       *)
(* buffers obtain exactly what they would obtain running alone.            *)
(*                                                                         *)
(* Each process p owns obj[p] (a message, abstracted to a small value) and *)
(* buf[p] (a FIFO of encoded messages).  The only shared state the library *)
(* has is the discriminator tables (read-only after start-up) and the      *)
(* checksum registry, which frame encoders READ; a side process registers  *)
(* and removes UNRELATED names meanwhile.  solo[p] is the ghost "what p    *)
(* would have produced alone" (its own operations applied to its own       *)
(* state).                                                                 *)
(*                                                                         *)
(* Deviation SharedScratch: the encoder stages the message in a package-   *)
(* level scratch variable between two steps (a realistic "optimisation":   *)
(* a shared bytes.Buffer / sync-less pool) - NonInterference must fail.    *)
(* Deviation ClearOnSide: the side process calls Clear(), which removes    *)
(* the services the frames need - the frames then keep a stale checksum.   *)
(***************************************************************************)
EXTENDS Integers, Sequences, FiniteSets, TLC

CONSTANTS Procs, Values, MaxOps, Deviations, Side

VARIABLES obj, buf, solo, out, soloOut, nops, reg, scratch, pc
vars == <<obj, buf, solo, out, soloOut, nops, reg, scratch, pc>>

Dev(d) == d \in Deviations
Needed == {"CRC32"}
(* the wire image of value v when the needed service is / is not registered *)
Render(v, r) == IF "CRC32" \in r THEN <<v, "sum">> ELSE <<v, "stale">>

Init ==
  /\ obj = [p \in Procs |-> CHOOSE v \in Values : TRUE]
  /\ buf = [p \in Procs |-> <<>>] /\ solo = [p \in Procs |-> <<>>]
  /\ out = [p \in Procs |-> <<>>] /\ soloOut = [p \in Procs |-> <<>>]
  /\ nops = [p \in Procs |-> 0]
  /\ reg = Needed
  /\ scratch = <<>>
  /\ pc = [p \in Procs |-> "idle"]

Set(p, v) ==
  /\ pc[p] = "idle" /\ nops[p] < MaxOps
  /\ obj' = [obj EXCEPT ![p] = v] /\ nops' = [nops EXCEPT ![p] = @ + 1]
  /\ UNCHANGED <<buf, solo, out, soloOut, reg, scratch, pc>>

Encode(p) ==
  /\ pc[p] = "idle" /\ nops[p] < MaxOps /\ ~Dev("SharedScratch")
  /\ buf' = [buf EXCEPT ![p] = Append(@, Render(obj[p], reg))]
  /\ solo' = [solo EXCEPT ![p] = Append(@, Render(obj[p], Needed))]
  /\ nops' = [nops EXCEPT ![p] = @ + 1]
  /\ UNCHANGED <<obj, out, soloOut, reg, scratch, pc>>

EncodeStage(p) ==
  /\ pc[p] = "idle" /\ nops[p] < MaxOps /\ Dev("SharedScratch")
  /\ scratch' = Render(obj[p], reg)
  /\ pc' = [pc EXCEPT ![p] = "staged"]
  /\ solo' = [solo EXCEPT ![p] = Append(@, Render(obj[p], Needed))]
  /\ nops' = [nops EXCEPT ![p] = @ + 1]
  /\ UNCHANGED <<obj, buf, out, soloOut, reg>>
EncodeFlush(p) ==
  /\ pc[p] = "staged"
  /\ buf' = [buf EXCEPT ![p] = Append(@, scratch)]
  /\ pc' = [pc EXCEPT ![p] = "idle"]
  /\ UNCHANGED <<obj, solo, out, soloOut, nops, reg, scratch>>

Decode(p) ==
  /\ pc[p] = "idle" /\ nops[p] < MaxOps /\ buf[p] # <<>>
  /\ out' = [out EXCEPT ![p] = Append(@, Head(buf[p]))]
  /\ buf' = [buf EXCEPT ![p] = Tail(@)]
  /\ soloOut' = [soloOut EXCEPT ![p] = IF solo[p] # <<>> THEN Append(@, Head(solo[p])) ELSE @]
  /\ solo' = [solo EXCEPT ![p] = IF @ # <<>> THEN Tail(@) ELSE @]
  /\ nops' = [nops EXCEPT ![p] = @ + 1]
  /\ UNCHANGED <<obj, reg, scratch, pc>>

(* the side process: registry traffic on unrelated names (or Clear, as a deviation) *)
SideStep ==
  /\ \/ reg' = reg \cup {Side}
     \/ reg' = reg \ {Side}
     \/ Dev("ClearOnSide") /\ reg' = {}
  /\ UNCHANGED <<obj, buf, solo, out, soloOut, nops, scratch, pc>>

Next == SideStep \/ \E p \in Procs : Encode(p) \/ EncodeStage(p) \/ EncodeFlush(p) \/ Decode(p) \/ \E v \in Values : Set(p, v)
Spec == Init /\ [][Next]_vars

NonInterference == \A p \in Procs : pc[p] = "idle" => buf[p] = solo[p] /\ out[p] = soloOut[p]
=============================================================================
