----------------------------- MODULE TraceWire -----------------------------
(***************************************************************************)
(* Trace validation of recorded executions of the REAL library against the *)
(* sequential specification (direction B of DESIGN.md 2.4).                *)
(*                                                                         *)
(* The harness logs one event per public call at its return (error and     *)
(* panic paths included) and per caller manipulation of a buffer/object.   *)
(* Every event must be a step of the corresponding action from the state   *)
(* reached so far to the logged post-state.  Events are fully logged, so   *)
(* the search is linear.  Instead of stopping at the first rejection the   *)
(* spec records <<event id, clause, deviation>> in `bad`, resynchronises   *)
(* on the logged post-state and goes on, so the REST of the trace is still *)
(* checked.  Clauses are per property (env VERIF_PROP).                    *)
(*                                                                         *)
(* State:                                                                  *)
(*   ub[b]    unread bytes of buffer b                                     *)
(*   held[o]  the message object o                                         *)
(*   q[b]     FIFO channel view of b: the messages encoded into b whose    *)
(*            bytes are still intact, in order (Channel.tla's queue), after*)
(*            lead[b] foreign bytes at the front                           *)
(*   F        ghost: the function message -> bytes the implementation      *)
(*            exhibited (C06: one F per behaviour)                         *)
(*   G        ghost: the function (type, buffer content) -> outcome of a   *)
(*            decode into a FRESH receiver (C15: decode depends on the     *)
(*            bytes only)                                                  *)
(*   src[o]   the bytes consumed by the decode that produced o (C08)       *)
(*   last[o]  the bytes o's last encode appended, while o is unchanged     *)
(*   part[b]  b holds a strict prefix of a valid encoding (C11)            *)
(***************************************************************************)
EXTENDS Prims, SequencesExt

Trace == ndJsonDeserialize(IOEnv.VERIF_TRACE)
Prop == IOEnv.VERIF_PROP

VARIABLES l, hist, ub, held, q, lead, F, G, src, last, part, ref, big, reg, wrote, mb, bad, nchk
vars == <<l, hist, ub, held, q, lead, F, G, src, last, part, ref, big, reg, wrote, mb, bad, nchk>>

Get(f, k, d) == IF k \in DOMAIN f THEN f[k] ELSE d
Put(f, k, x) == [y \in DOMAIN f \cup {k} |-> IF y = k THEN x ELSE f[y]]
Del(f, k) == [y \in DOMAIN f \ {k} |-> f[y]]
Empty == [x \in {} |-> 0]

UB(b) == Get(ub, b, <<>>)
Q(b) == Get(q, b, <<>>)
Lead(b) == Get(lead, b, 0)

Init ==
  /\ l = 1 /\ hist = 0
  /\ ub = Empty /\ held = Empty /\ q = Empty /\ lead = Empty
  /\ F = Empty /\ G = Empty /\ src = Empty /\ last = Empty /\ part = Empty
  /\ ref = [bytes |-> <<>>, canon |-> FALSE]
  /\ big = Empty
  /\ reg = AlgNames       \* the checksum services registered (library start-up state)
  /\ wrote = Empty        \* what the last writer primitive put into a buffer (for its read-back)
  /\ mb = Empty           \* the MODEL's reading position in a buffer read by a sequence of reader primitives (C11)
  /\ bad = <<>> /\ nchk = 0

---------------------------------------------------------------------------
(* Clause evaluation.  A clause result is a set of <<clause, deviation>>   *)
(* pairs: empty when the clause holds; deviation names a KNOWN way the     *)
(* code departs from the property ("none" if the failure matches none).    *)
(***************************************************************************)
P(p) == Prop = p \/ Prop = "ALL"

(* C20 judges each goroutine's events only against the same history run alone: a defect that *)
(* shows equally in the solo run is a sequential defect and belongs to another property.     *)

(* C20: the event equals its twin of the solo run (same result, bytes, object, scalar) *)
TwinClauses(e) ==
  IF Prop = "C20" /\ "twin" \in DOMAIN e /\ e.twin > 0
  THEN LET t == Trace[e.twin] IN
       IF e.op = t.op /\ e.res = t.res /\ e.post = t.post /\ e.vpost = t.vpost /\ e.out = t.out THEN {}
       ELSE {<<"C20.differs-from-solo-run", "none">>}
  ELSE {}

(* C06 (like C05) is stated for the start-up registry: a frame encoded while its checksum service is removed keeps the *)
(* caller's checksum, so its rendering is neither recorded as "the" rendering of the message nor compared with it      *)
RegOK(T) == T \notin CsumTypes \/ ChecksumAlg(T) \in reg

EncodeClauses(e) ==
  LET b == e.b
      pre == UB(b)
      v == Get(held, e.o, NilV)
      app == IF IsPrefixOf(pre, e.post) THEN Drop(e.post, Len(pre)) ELSE <<>>
      T == e.t
  IN
  (* C02: the appended bytes are the pinned rendering of the value.          *)
  (* C03: ... and where they are not, is it the byte order of an integer?    *)
  (IF P("C02") \/ P("C03")
   THEN LET E == ExpectedEnc(T, v, reg) IN
        IF E.ok /\ ~(e.res = "ok" /\ app = E.bytes)
        THEN LET orderOnly == e.res = "ok" /\ OnlyByteOrderDiffers(app, E.bytes, E.mask)
                 kinds == IF orderOnly THEN ReversedKinds(app, E.bytes, E.mask) ELSE {}
                 dev == IF kinds = {KListElem} THEN "ListLE_ElementsBE"
                        ELSE IF kinds = {KObjCount} THEN "ObjListLE_CountBE"
                        ELSE IF kinds = {KListElem, KObjCount} THEN "ListLE_ElementsBE+ObjListLE_CountBE"
                        ELSE "none"
             IN (IF P("C02") /\ ~(orderOnly /\ Prop = "ALL") THEN {<<"C02.encode-bytes", dev>>} ELSE {})
                \cup (IF P("C03") /\ orderOnly THEN {<<"C03.message-byte-order", dev>>} ELSE {})
        ELSE {}
   ELSE {})
  \cup
  (* C13 at message level: the rendering differs from the pinned one only inside fixed-width text fields *)
  (IF P("C13") /\ Prop # "ALL"
   THEN LET E == ExpectedEnc(T, v, reg) IN
        IF E.ok /\ e.res = "ok" /\ OnlyFixedTextDiffers(app, E.bytes, E.mask) THEN {<<"C13.message-write", "none">>} ELSE {}
   ELSE {})
  \cup
  (* C04: length field = body bytes emitted; the object reports the same.  Judged where the   *)
  (* header is the pinned one - or where THIS message was rendered with the pinned header     *)
  (* elsewhere in the history (then the offsets of the layout are meaningful for this encoder  *)
  (* and a frame that does not start with its header is history-dependent garbage, not a        *)
  (* consistent layout change, which is C02's): both renderings are judged.                     *)
  (IF P("C04") /\ T \in FrameTypes /\ e.res = "ok"
   THEN LET conf == HeaderConforms(T, v, app)
            seen == v \in DOMAIN F
            confF == seen /\ HeaderConforms(T, v, F[v])
            longEnough(w) == Len(w) >= BodyOff(T) + TrailerLen(T)
        IN (IF conf \/ (confF /\ longEnough(app))
            THEN (IF LenFieldOf(T, app) # CorrectLen(T, app) THEN {<<"C04.wire-length", "none">>} ELSE {})
                 \cup (IF e.vpost[LenName(T)] # CorrectLen(T, app) THEN {<<"C04.object-length", "none">>} ELSE {})
            ELSE {})
           \cup (IF conf /\ seen /\ ~confF /\ F[v] # app /\ longEnough(F[v]) /\ LenFieldOf(T, F[v]) # CorrectLen(T, F[v])
                 THEN {<<"C04.wire-length", "none">>} ELSE {})
   ELSE {})
  \cup
  (* C05: checksum = algorithm over exactly this frame's bytes *)
  (IF P("C05") /\ T \in CsumTypes /\ ChecksumAlg(T) \in reg /\ e.res = "ok" /\ HeaderConforms(T, v, app)
   THEN LET good == CorrectCsum(T, app)
            wireOK == CsumFieldOf(T, app) = good
            objOK == e.vpost[CsumName(T)] = good
        IN IF wireOK /\ objOK THEN {}
           ELSE LET dev == IF Len(pre) > 0 /\ CsumFieldOf(T, app) = Alg(ChecksumAlg(T), pre \o Take(app, Len(app) - 4))
                           THEN "FrameChecksum_OverUnread" ELSE "none"
                IN (IF ~wireOK THEN {<<"C05.wire-checksum", dev>>} ELSE {})
                   \cup (IF ~objOK THEN {<<"C05.object-checksum", dev>>} ELSE {})
   ELSE {})
  \cup
  (* C06: append-only, context-free, repeatable (self-referential) *)
  (IF P("C06")
   THEN (IF ~IsPrefixOf(pre, e.post) THEN {<<"C06.append-only", "none">>} ELSE {})
        \cup (IF e.res = "ok" /\ RegOK(T) /\ v \in DOMAIN F /\ IsPrefixOf(pre, e.post) /\ app # F[v]
              THEN {<<"C06.context-free",
                      IF T \in CsumTypes /\ Len(app) = Len(F[v]) /\ Take(app, Len(app) - 4) = Take(F[v], Len(app) - 4)
                         /\ CsumFieldOf(T, app) = Alg(ChecksumAlg(T), pre \o Take(app, Len(app) - 4))
                      THEN "FrameChecksum_OverUnread" ELSE "none">>}
              ELSE {})
        \cup (IF e.res = "ok" /\ RegOK(T) /\ e.o \in DOMAIN last /\ IsPrefixOf(pre, e.post) /\ app # last[e.o]
              THEN {<<"C06.repeatable",
                      IF T \in CsumTypes /\ Len(app) = Len(last[e.o]) /\ Take(app, Len(app) - 4) = Take(last[e.o], Len(app) - 4)
                      THEN "FrameChecksum_OverUnread" ELSE "none">>}
              ELSE {})
   ELSE {})
  \cup
  (* C08: re-encoding a decoded message reproduces the bytes consumed *)
  (IF P("C08") /\ e.o \in DOMAIN src /\ e.res # "panic"
   THEN IF e.res = "ok" /\ app = (IF T \in CsumTypes /\ ChecksumAlg(T) \notin reg THEN FixLenOnly(T, src[e.o]) ELSE FixComputed(T, src[e.o])) THEN {}
        ELSE {<<"C08.reencode", "none">>}
   ELSE {})
  \cup
  (* C12: a left-out body/extension is materialised as the pinned type; unknown key -> error *)
  (IF P("C12") /\ HasKind(T, "body")
   THEN LET E == EncMsg(T, v)
            bn == (FieldsOf(T)[CHOOSE i \in 1..Len(FieldsOf(T)) : FieldsOf(T)[i].kind = "body"]).name
        IN IF E.ok THEN (IF e.res = "ok" /\ e.vpost[bn]["_t"] = E.val[bn]["_t"] THEN {} ELSE {<<"C12.encode-type", "none">>})
           ELSE IF E.why = "unknown-key" THEN (IF e.res = "err" THEN {} ELSE {<<"C12.encode-unknown-key", "none">>})
           ELSE {}
   ELSE {})
  \cup
  (* C17: encode returns bytes or an error *)
  (IF P("C17") /\ e.res \notin {"ok", "err"}
   THEN {<<"C17.encode-outcome", IF HasNilNested(T, v) THEN "Nested_NilDeref" ELSE "none">>}
   ELSE {})
  \cup
  (* C18: a value too long for its prefix is refused *)
  (IF P("C18")
   THEN LET E == EncMsg(T, v) IN
        IF ~E.ok /\ E.why = "prefix-overflow" /\ e.res = "ok" THEN {<<"C18.message-wrap", "Prefix_Wrap">>}
        ELSE IF E.ok /\ e.res # "ok" THEN {<<"C18.at-limit-refused", "none">>}     \* what fits must encode (that it round-trips is judged at the decode)
        ELSE {}
   ELSE {})

(* the lengths of the top-level length-prefixed fields of a message *)
PrefLens(T, v) ==
  LET fs == FieldsOf(T)
      idx == {i \in 1..Len(fs) : fs[i].kind \in {"str", "list", "objlist"}}
  IN [i \in idx |-> Len(v[fs[i].name])]

DecodeClauses(e) ==
  LET b == e.b
      pre == UB(b)
      T == e.t
      used == Len(pre) - Len(e.post)
      okshape == IsSuffixOf(e.post, pre)
      hd == IF Lead(b) = 0 /\ Len(Q(b)) > 0 THEN Q(b)[1] ELSE [t |-> "none"]
  IN
  (* C01: decoding what encode produced gives the message back (canonical domain) *)
  (IF P("C01") /\ hd.t = T /\ Canonical(T, hd.v)
   THEN (IF e.res = "ok" /\ e.vpost = hd.vp THEN {} ELSE {<<"C01.roundtrip", "none">>})
        \cup (* "length and checksum fields that the frame computes itself are compared against their correct values" *)
             (IF e.res = "ok" /\ T \in FrameTypes /\ HeaderConforms(T, hd.v, hd.bytes) /\ e.vpost[LenName(T)] # CorrectLen(T, hd.bytes)
              THEN {<<"C01.computed-length", "none">>} ELSE {})
        \cup (IF e.res = "ok" /\ T \in CsumTypes /\ ChecksumAlg(T) \in reg /\ HeaderConforms(T, hd.v, hd.bytes)
                 /\ e.vpost[CsumName(T)] # CorrectCsum(T, hd.bytes)
              THEN {<<"C01.computed-checksum", "none">>} ELSE {})
   ELSE {})
  \cup
  (* C02, decode direction: agreement with the interpreter *)
  (IF P("C02")
   THEN LET D == Dec(T, pre) IN
        IF D.ok /\ e.res = "ok" /\ ~(e.vpost = D.val /\ okshape /\ used = D.used) THEN {<<"C02.decode", "none">>}
        ELSE IF D.ok /\ ((hd.t = T /\ hd.conf) \/ e.tag = "spec-image") /\ e.res # "ok" THEN {<<"C02.decode", "rejects-pinned-encoding">>}
        ELSE {}
   ELSE {})
  \cup
  (* C07: exactly one message's bytes are consumed, the rest is untouched *)
  (IF P("C07") /\ hd.t = T
   THEN IF e.res = "ok"
        THEN (IF okshape /\ used = Len(hd.bytes) THEN {} ELSE {<<"C07.exact-consume", "none">>})
             \cup (IF Canonical(T, hd.v) /\ e.vpost # hd.vp THEN {<<"C07.stream-value", "none">>} ELSE {})
        ELSE IF Canonical(T, hd.v) THEN {<<"C07.stream-rejected", "none">>} ELSE {}
   ELSE {})
  \cup
  (* C18: at and below the prefix limit the value round-trips (self-referential, as C01) *)
  (* (judged on what C18 is about: the message decodes and every prefixed field comes back with *)
  (* the number of bytes / elements that was encoded; other differences are C01's)            *)
  (IF P("C18") /\ hd.t = T /\ Canonical(T, hd.v)
   THEN IF (e.res = "ok" /\ PrefLens(T, e.vpost) = PrefLens(T, hd.vp)) \/ e.res \notin {"ok", "err"} THEN {} ELSE {<<"C18.at-limit-roundtrip", "none">>}
   ELSE {})
  \cup
  (* C09: a message or an error *)
  (IF P("C09") /\ e.res \notin {"ok", "err"}
   THEN {<<"C09.decode-outcome", IF e.res = "abort" THEN "Reserve_BeforeCheck" ELSE "none">>} ELSE {})
  \cup
  (* C10: allocation bounded by a constant plus a multiple of the input present *)
  (IF P("C10") /\ e.alloc >= 0 /\ e.alloc > 16384 + 64 * e.inlen
   THEN {<<"C10.alloc-budget", "Reserve_BeforeCheck">>} ELSE {})
  \cup
  (* C11: a strict prefix of a valid encoding is rejected *)
  (IF P("C11") /\ Get(part, b, FALSE) /\ e.res = "ok" THEN {<<"C11.truncated-accepted", "none">>} ELSE {})    \* (a panic here is C09's)
  \cup
  (* C12: the key selects the pinned type; unknown keys are errors *)
  (IF P("C12") /\ HasKind(T, "body")
   THEN LET D == DecMsg(T, pre, 1)
            bn == (FieldsOf(T)[CHOOSE i \in 1..Len(FieldsOf(T)) : FieldsOf(T)[i].kind = "body"]).name
        IN IF D.ok THEN (IF (e.res = "ok" /\ e.vpost[bn]["_t"] = D.val[bn]["_t"]) \/ e.res \notin {"ok", "err"} THEN {}   \* a panic is C09's
                         ELSE {<<"C12.decode-type", "none">>})
           ELSE IF D.why = "unknown-key" THEN (IF e.res = "err" THEN {} ELSE {<<"C12.decode-unknown-key", "none">>})
           ELSE {}
   ELSE {})
  \cup
  (* C15: the result depends on the bytes only: the same buffer content decoded into a fresh *)
  (* and into a used receiver gives the same outcome, consumption and message               *)
  (IF P("C15") /\ <<T, pre>> \in DOMAIN G /\ G[<<T, pre>>].res = "ok"
   THEN LET g == G[<<T, pre>>] IN
        IF e.res = "ok" /\ okshape /\ used = g.used /\ e.vpost = g.vpost THEN {}
        ELSE {<<"C15.receiver-dependent", "none">>}
   ELSE {})

ObserveClauses(e) ==
  (* C16: the message is what the spec says it is - scribbling on buffers changed no object *)
  (IF P("C16") /\ e.o \in DOMAIN held /\ e.vpost # held[e.o] THEN {<<"C16.message-changed", "none">>} ELSE {})
  \cup
  (* C01: the message a decode yielded is still that message when the application looks at it after *)
  (* its receive buffer went back to the pool (a round trip whose result does not last is none)     *)
  (IF Prop = "C01" /\ e.tag = "kept" /\ e.o \in DOMAIN held /\ e.vpost # held[e.o] THEN {<<"C01.roundtrip-kept", "none">>} ELSE {})

PeekClauses(e) ==
  (* C16 / C06: the buffer is what the spec says it is - mutating objects changed no bytes *)
  IF (P("C16") \/ P("C07")) /\ e.post # UB(e.b) THEN {<<IF P("C07") /\ Prop # "ALL" THEN "C07.leftover" ELSE "C16.bytes-changed", "none">>} ELSE {}

(***************************************************************************)
(* Codec primitives (op "prim") and checksum services (op "calc").         *)
(***************************************************************************)
IntOnlyFns == {"WriteBasicType", "ReadBasicType", "WriteBasicTypeList", "ReadBasicTypeList", "WriteString", "ReadString",
               "WriteStringList", "ReadStringList", "WriteObjectList", "ReadObjectList"}
FixedFns == {"WriteFixedString", "WriteFixedStringWithPadding", "ReadFixedString", "ReadFixedStringTrimPadding",
             "WriteFixedStringList", "WriteFixedStringListWithPadding", "ReadFixedStringList", "ReadFixedStringListTrimPadding", "Padding"}

(* the cutset-of-a-rune trim the pinned code performed: pad >= 0x80 is     *)
(* not stripped as a byte (named deviation of C13)                         *)
PadIsHigh(a) == "pad" \in DOMAIN a /\ a.pad >= 128

(* the model's own position in buffer b: its bytes, and whether it already ran out of input *)
MB(b, pre) == Get(mb, b, [bytes |-> pre, dead |-> FALSE])
MRead(b, fn, a, pre, R) == LET cur == MB(b, pre) IN IF cur.bytes = pre THEN R ELSE PRead(fn, a, cur.bytes)
ModelShort(b, fn, a, pre, R) ==
  LET cur == MB(b, pre) IN
  cur.dead \/ (cur.bytes # pre /\ LET M == PRead(fn, a, cur.bytes) IN ~M.ok /\ M.why = "short")

PrimClauses(e) ==
  LET a == e.args
      fn == e.fn
      pre == UB(e.b)
  IN
  IF fn \in Writers
  THEN LET W == PWrite(fn, a)
           app == IF e.big \/ ~IsPrefixOf(pre, e.post) THEN <<>> ELSE Drop(e.post, Len(pre))
       IN IF ~W.ok
          THEN (IF P("C18") /\ W.why = "prefix-overflow" /\ e.res # "err" THEN {<<"C18.primitive-wrap", "Prefix_Wrap">>} ELSE {})
          ELSE IF P("C18") /\ e.res # "ok" THEN {<<"C18.primitive-at-limit-refused", "none">>}
          ELSE IF e.big THEN {}
          ELSE IF e.res = "ok" /\ app = W.bytes THEN {}
          ELSE LET orderOnly == e.res = "ok" /\ OnlyByteOrderDiffers(app, W.bytes, W.mask)
                   kinds == IF orderOnly THEN ReversedKinds(app, W.bytes, W.mask) ELSE {}
                   odev == IF kinds = {KListElem} THEN "ListLE_ElementsBE" ELSE IF kinds = {KObjCount} THEN "ObjListLE_CountBE" ELSE "none"
               IN (IF P("C03") /\ orderOnly THEN {<<"C03.primitive-byte-order", odev>>} ELSE {})
                  \cup (IF P("C02") /\ ~orderOnly THEN {<<"C02.primitive-bytes", "none">>} ELSE {})
                  \cup (IF P("C13") /\ fn \in FixedFns /\ ~orderOnly THEN {<<"C13.write", "none">>} ELSE {})
                  \cup (IF P("C18") /\ e.res = "ok" /\ "pw" \in DOMAIN a /\ Len(app) >= a.pw
                            /\ ValCap(Ord(EndOf(a), Take(app, a.pw))) # ValCap(Ord(EndOf(a), Take(W.bytes, a.pw)))
                        THEN {<<"C18.primitive-wrong-prefix", "none">>} ELSE {})
  ELSE LET R == PRead(fn, a, pre)
           used == Len(pre) - Len(e.post)
           agree == e.res = "ok" /\ e.ret = R.ret /\ IsSuffixOf(e.post, pre) /\ used = R.used
       IN (IF P("C13") /\ fn \in FixedFns /\ R.ok /\ ~agree
           THEN {<<"C13.read", IF PadIsHigh(a) THEN "Trim_RuneCutset" ELSE "none">>} ELSE {})
          \cup (IF P("C03") /\ fn \in IntOnlyFns /\ R.ok /\ ~agree THEN {<<"C03.primitive-read", "none">>} ELSE {})
          \cup (IF P("C02") /\ R.ok /\ e.res \in {"ok", "err"} /\ ~agree THEN {<<"C02.primitive-read", "none">>} ELSE {})
          \cup (* C01 at primitive level (self-referential): reading back what was written returns it *)
                (IF P("C01") /\ e.tag = "read-back" /\ fn \notin FixedFns /\ e.b \in DOMAIN wrote /\ ~(e.res = "ok" /\ e.ret = wrote[e.b])
                 THEN {<<"C01.primitive-roundtrip", "none">>} ELSE {})
          \cup (IF P("C07") /\ R.ok /\ e.res = "ok" /\ ~(IsSuffixOf(e.post, pre) /\ used = R.used) THEN {<<"C07.primitive-consume", "none">>} ELSE {})
          \cup (IF P("C18") /\ R.ok /\ e.tag = "read-back" /\ (e.res = "err" \/ (e.res = "ok" /\ Len(e.ret) # Len(R.ret)))
                 THEN {<<"C18.read-back", "none">>} ELSE {})
          \cup (IF P("C11") /\ ~R.ok /\ R.why = "short" /\ e.res = "ok" THEN {<<"C11.primitive-short-read", "none">>} ELSE {})
          \cup (* a sequence of reads is a message: where the model, reading the same fields one after the other from
                  the bytes that were loaded, runs out of input, the implementation's read must not succeed
                  (even if an earlier read of the sequence left more bytes behind than it should have)          *)
               (IF P("C11") /\ R.ok /\ e.res = "ok" /\ ModelShort(e.b, fn, a, pre, R)
                THEN {<<"C11.primitive-sequence-short", "none">>} ELSE {})
          \cup (IF P("C09") /\ e.res \notin {"ok", "err"}
              THEN {<<"C09.primitive-outcome", IF e.res = "abort" THEN "Reserve_BeforeCheck" ELSE "none">>} ELSE {})
          \cup (IF P("C10") /\ e.alloc >= 0 /\ e.alloc > 16384 + 64 * e.inlen THEN {<<"C10.primitive-alloc", "Reserve_BeforeCheck">>} ELSE {})

CalcClauses(e) ==
  IF ~P("C14") THEN {}
  ELSE LET isBig == e.big
           runs == Get(big, e.b, <<>>)
           sumAlg == e.alg \in {"SSE_BIN", "SZSE_BIN"}
           want == IF ~isBig THEN Alg(e.alg, UB(e.b))
                   ELSE IF sumAlg THEN Digits(Sum8Runs(runs), 4)
                   ELSE Alg(e.alg, Expand(runs))
           dev == IF e.alg = "SZSE_BIN" /\ Len(e.out) = 4 /\ e.out[1] = 255 THEN "SzseSum_Int32" ELSE "none"
       IN (IF e.res # "ok" \/ e.out # want THEN {<<"C14.value", dev>>} ELSE {})
          \cup (IF (~isBig /\ e.post # UB(e.b)) \/ (isBig /\ ~e.same) THEN {<<"C14.buffer-untouched", "none">>} ELSE {})

Clauses(e) ==
  CASE e.op = "encode" -> EncodeClauses(e)
    [] e.op = "decode" -> DecodeClauses(e)
    [] e.op = "observe" -> ObserveClauses(e)
    [] e.op = "peek" -> PeekClauses(e)
    [] e.op = "prim" -> PrimClauses(e)
    [] e.op = "calc" -> CalcClauses(e)
    [] e.op = "encodehuge" ->      \* C04 on bodies of up to 40 MiB: only the head of the frame and its size are logged
         IF P("C04") /\ e.t \in FrameTypes /\ e.res = "ok" /\ Len(e.bytes) >= BodyOff(e.t)
         THEN LET want == Digits(e.plen - BodyOff(e.t) - TrailerLen(e.t), 4) IN
              (IF Ord(EndianOf(e.t), SubSeq(e.bytes, LenOff(e.t) + 1, LenOff(e.t) + 4)) # want THEN {<<"C04.wire-length", "none">>} ELSE {})
              \cup (IF e.vpost[LenName(e.t)] # want THEN {<<"C04.object-length", "none">>} ELSE {})
         ELSE {}
    [] e.op = "regfactory" ->      \* the tables this run is judged against contain the registration the application made
         (IF P("C12") /\ Lookup(e.from, e.bytes) # e.t THEN {<<"C12.registration-not-in-tables", "none">>} ELSE {})
         \cup (* a registration that does not return after a frame was refused: the decoder left a lock behind (C09: never hangs) *)
              (IF P("C09") /\ e.res \notin {"ok", "na"} THEN {<<"C09.call-did-not-return", "none">>} ELSE {})
    [] OTHER -> {}

---------------------------------------------------------------------------
(* The step: state after event e, taken from the log (resynchronisation)   *)
(* plus the ghosts the specification maintains itself.                     *)
(***************************************************************************)
RECURSIVE QBytesR(_, _)
QBytesR(qs, i) == IF i = 0 THEN 0 ELSE Len(qs[i].bytes) + QBytesR(qs, i - 1)
QBytes(qs) == QBytesR(qs, Len(qs))

BufOps == {"encode", "decode", "next", "reset", "write", "load", "cut", "scribble", "peek", "calc", "prim", "fill", "poke"}   \* (regremove/regrestore touch no buffer)

Step(e) ==
  LET b == e.b
      o == e.o
      pre == UB(b)
      v == Get(held, o, NilV)
      appended == IF IsPrefixOf(pre, e.post) THEN Drop(e.post, Len(pre)) ELSE <<>>
      encOK == e.op = "encode" /\ e.res = "ok" /\ IsPrefixOf(pre, e.post)
      decOK == e.op = "decode" /\ e.res = "ok" /\ IsSuffixOf(e.post, pre)
      used == Len(pre) - Len(e.post)
      alignedHead == Lead(b) = 0 /\ Len(Q(b)) > 0
  IN
  /\ ub' = IF e.op \in BufOps THEN Put(ub, b, e.post) ELSE ub
  /\ held' = CASE e.op \in {"new", "newzero", "copy"} -> Put(held, o, e.v)
               [] e.op \in {"encode", "decode", "mutate"} -> Put(held, o, e.vpost)
               [] OTHER -> held
  /\ q' = CASE encOK /\ Len(pre) = Lead(b) + QBytes(Q(b)) ->
                 Put(q, b, Append(Q(b), [t |-> e.t, v |-> v, vp |-> e.vpost, bytes |-> appended,
                                         conf |-> (IF P("C02") THEN LET E == ExpectedEnc(e.t, v, reg) IN E.ok /\ E.bytes = appended ELSE FALSE)]))
            [] e.op = "encode" -> q      \* appended after foreign bytes (or failed): not part of the channel view
            [] decOK /\ alignedHead /\ used = Len(Q(b)[1].bytes) -> Put(q, b, Tail(Q(b)))
            [] e.op \in {"decode", "next", "reset", "load", "cut", "scribble", "poke"} -> Put(q, b, <<>>)
            [] OTHER -> q
  /\ lead' = CASE encOK /\ Len(pre) = 0 -> Put(lead, b, 0)
               [] e.op = "encode" -> lead
               [] decOK /\ alignedHead /\ used = Len(Q(b)[1].bytes) -> lead
               [] e.op \in {"decode", "next", "reset", "load", "cut", "scribble", "poke"} -> Put(lead, b, Len(e.post))
               [] e.op = "write" /\ Len(Q(b)) = 0 -> Put(lead, b, Len(e.post))
               [] OTHER -> lead
  /\ F' = IF encOK /\ RegOK(e.t) /\ Len(pre) = 0 /\ v \notin DOMAIN F THEN Put(F, v, appended) ELSE F
  /\ G' = IF e.op = "decode" /\ e.fresh /\ <<e.t, pre>> \notin DOMAIN G
          THEN Put(G, <<e.t, pre>>, [res |-> e.res, used |-> used, vpost |-> e.vpost]) ELSE G
  /\ src' = CASE decOK -> Put(src, o, Take(pre, used))
              [] e.op \in {"decode", "new", "newzero", "copy", "mutate"} /\ o \in DOMAIN src -> Del(src, o)
              [] OTHER -> src
  /\ last' = CASE encOK /\ RegOK(e.t) -> Put(last, o, appended)
               [] e.op \in {"decode", "new", "newzero", "copy", "mutate", "encode"} /\ o \in DOMAIN last -> Del(last, o)
               [] OTHER -> last
  /\ big' = IF e.op = "fill" THEN Put(big, b, e.args.runs) ELSE big
  /\ wrote' = IF e.op = "prim" /\ e.fn \in Writers /\ e.fn # "Padding" /\ e.res = "ok" THEN Put(wrote, b, ArgOf(e.fn, e.args)) ELSE wrote
  /\ mb' = IF e.op \notin BufOps \/ e.op \in {"peek", "calc"} \/ ~P("C11") THEN mb
           ELSE IF e.op = "prim" /\ e.fn \notin Writers
           THEN LET cur == MB(b, pre)
                    M == PRead(e.fn, e.args, cur.bytes)
                IN IF cur.dead \/ (~M.ok /\ M.why = "short") THEN Put(mb, b, [bytes |-> cur.bytes, dead |-> TRUE])
                   ELSE IF M.ok THEN Put(mb, b, [bytes |-> Drop(cur.bytes, M.used), dead |-> FALSE])
                   ELSE Put(mb, b, [bytes |-> e.post, dead |-> FALSE])
           ELSE Put(mb, b, [bytes |-> e.post, dead |-> FALSE])
  /\ reg' = CASE e.op = "regremove" -> reg \ {e.alg}
              [] e.op = "regrestore" -> reg \cup {e.alg}
              [] OTHER -> reg
  /\ ref' = IF encOK /\ e.tag = "reference" THEN [bytes |-> appended, canon |-> Canonical(e.t, v)] ELSE ref
  /\ part' = CASE e.op = "cut" -> Put(part, b, ref.canon /\ Len(e.post) < Len(ref.bytes) /\ IsPrefixOf(e.post, ref.bytes))
               [] e.op \in {"encode", "write", "load", "reset", "scribble", "next", "decode"} /\ b \in DOMAIN part -> Put(part, b, FALSE)
               [] OTHER -> part

ResetHistory ==
  /\ ub' = Empty /\ held' = Empty /\ q' = Empty /\ lead' = Empty
  /\ F' = Empty /\ G' = Empty /\ src' = Empty /\ last' = Empty /\ part' = Empty
  /\ ref' = [bytes |-> <<>>, canon |-> FALSE]
  /\ big' = Empty
  /\ reg' = AlgNames
  /\ wrote' = Empty
  /\ mb' = Empty

Next ==
  /\ l <= Len(Trace)
  /\ LET e == Trace[l] IN
     IF e.h # hist
     THEN /\ hist' = e.h /\ ResetHistory /\ UNCHANGED <<l, bad, nchk>>
     ELSE /\ LET cs == Clauses(e) \cup TwinClauses(e) IN
             /\ bad' = bad \o SetToSeq({[id |-> e.id, h |-> e.h, op |-> e.op, t |-> e.t, clause |-> c[1], dev |-> c[2]] : c \in cs})
             /\ nchk' = nchk + 1
          /\ Step(e)
          /\ l' = l + 1 /\ hist' = hist

Spec == Init /\ [][Next]_vars

(* every event consumed: print the verdict as JSON for the orchestrator *)
Verdict == l = Len(Trace) + 1 => PrintT(<<"VERDICT", nchk, ToJson(bad)>>)
=============================================================================
