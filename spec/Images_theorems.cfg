SPECIFICATION Spec
INVARIANT SelfDecodes
INVARIANT RoundTrips
INVARIANT PrefixFree
INVARIANT ReencodeSmall
CHECK_DEADLOCK FALSE
