SPECIFICATION Spec
INVARIANT ReserveBounded
CHECK_DEADLOCK FALSE
