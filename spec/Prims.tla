------------------------------- MODULE Prims -------------------------------
(***************************************************************************)
(* The codec primitives (codec/binary_codec.go) as specification-level     *)
(* operators: what a call must append / must return.  They are the SAME    *)
(* renderings the message interpreter uses (EncStep / DecStep of Codec),   *)
(* applied to a one-field message, so the primitive-level and the          *)
(* message-level statements of C03, C13, C18 cannot drift apart.           *)
(*                                                                         *)
(* A call is (fn, a): a.le, a.pw (prefix width), a.pw2 (inner prefix of    *)
(* text lists), a.ek (element kind), a.s (text), a.v (number), a.vals or   *)
(* a.count x a.elem (list), a.n / a.pad / a.left (fixed text).             *)
(***************************************************************************)
EXTENDS Codec

Has(a, k) == k \in DOMAIN a
EndOf(a) == IF a.le THEN "LE" ELSE "BE"
ValsOf(a) == IF Has(a, "count") /\ a.count > 0 THEN Rep(a.elem, a.count) ELSE a.vals
TextOf(a) == IF Has(a, "runs") THEN Expand(a.runs) ELSE a.s

(* "du16" ... are DEFINED Go types over uint16 ... (admitted by the ~ constraints): same rendering *)
EkWidth(ek) == CASE ek \in {"i8", "u8"} -> 1 [] ek \in {"i16", "u16", "du16"} -> 2
                 [] ek \in {"i32", "u32", "f32", "di32", "du32"} -> 4 [] ek \in {"i64", "u64", "f64", "di64", "df64"} -> 8

PlainPad == 32   \* WriteFixedString / ReadFixedString: space, right

(* the field record (in the schema's vocabulary) a primitive call stands for *)
FieldOf(fn, a) ==
  CASE fn \in {"WriteBasicType", "ReadBasicType"} -> [name |-> "x", kind |-> "int", w |-> EkWidth(a.ek)]
    [] fn \in {"WriteBasicTypeList", "ReadBasicTypeList"} ->
         [name |-> "x", kind |-> "list", pw |-> a.pw, elem |-> [kind |-> "int", w |-> EkWidth(a.ek)]]
    [] fn \in {"WriteString", "ReadString"} -> [name |-> "x", kind |-> "str", pw |-> a.pw]
    [] fn \in {"WriteFixedString", "ReadFixedString"} -> [name |-> "x", kind |-> "fixed", n |-> a.n, pad |-> PlainPad, left |-> FALSE]
    [] fn \in {"WriteFixedStringWithPadding", "ReadFixedStringTrimPadding"} ->
         [name |-> "x", kind |-> "fixed", n |-> a.n, pad |-> a.pad, left |-> a.left]
    [] fn \in {"WriteFixedStringList", "ReadFixedStringList"} ->
         [name |-> "x", kind |-> "list", pw |-> a.pw, elem |-> [kind |-> "fixed", n |-> a.n, pad |-> PlainPad, left |-> FALSE]]
    [] fn \in {"WriteFixedStringListWithPadding", "ReadFixedStringListTrimPadding"} ->
         [name |-> "x", kind |-> "list", pw |-> a.pw, elem |-> [kind |-> "fixed", n |-> a.n, pad |-> a.pad, left |-> a.left]]
    [] fn \in {"WriteStringList", "ReadStringList"} ->
         [name |-> "x", kind |-> "list", pw |-> a.pw, elem |-> [kind |-> "str", pw |-> a.pw2]]
    [] fn \in {"WriteObjectList", "ReadObjectList"} -> [name |-> "x", kind |-> "objlist", pw |-> a.pw, type |-> a.t]

ArgOf(fn, a) ==
  CASE fn = "WriteBasicType" -> a.v
    [] fn \in {"WriteString", "WriteFixedString", "WriteFixedStringWithPadding"} -> TextOf(a)
    [] fn \in {"WriteBasicTypeList", "WriteFixedStringList", "WriteFixedStringListWithPadding", "WriteStringList"} -> ValsOf(a)
    [] fn = "WriteObjectList" -> IF Has(a, "count") /\ a.count > 0
                                 THEN [i \in 1..a.count |-> IF Has(a, "nilat") /\ i = a.nilat + 1 THEN NilV ELSE a.obj]
                                 ELSE a.objs

Writers == {"WriteBasicType", "WriteBasicTypeList", "WriteString", "WriteFixedString", "WriteFixedStringWithPadding",
            "WriteFixedStringList", "WriteFixedStringListWithPadding", "WriteStringList", "WriteObjectList", "Padding"}
Readers == {"ReadBasicType", "ReadBasicTypeList", "ReadString", "ReadFixedString", "ReadFixedStringTrimPadding",
            "ReadFixedStringList", "ReadFixedStringListTrimPadding", "ReadStringList", "ReadObjectList"}

(* what a writer call must append: [ok, bytes, mask, why] *)
PWrite(fn, a) ==
  IF fn = "Padding" THEN [ok |-> TRUE, bytes |-> Rep(a.pad, a.n), mask |-> Rep(0, a.n), why |-> ""]
  ELSE LET r == EncStep("prim", EndOf(a),
                        [ok |-> TRUE, bytes |-> <<>>, mask |-> <<>>, val |-> [x |-> ArgOf(fn, a)], lenpos |-> 0, lenname |-> "", why |-> ""],
                        FieldOf(fn, a))
       IN [ok |-> r.ok, bytes |-> r.bytes, mask |-> r.mask, why |-> r.why]

(* what a reader call must return on input w: [ok, ret, used, why] *)
PRead(fn, a, w) ==
  LET r == DecStep("prim", EndOf(a), w, [ok |-> TRUE, val |-> ("_t" :> "prim"), pos |-> 1, reserve |-> 0, why |-> ""], FieldOf(fn, a))
  IN [ok |-> r.ok, ret |-> IF r.ok THEN r.val["x"] ELSE <<>>, used |-> r.pos - 1, why |-> r.why, reserve |-> r.reserve]

---------------------------------------------------------------------------
(* Lemmas of C13, checked by TLC as ASSUMEs on a small exhaustive domain   *)
(* (the exhaustive Primitives model checks them on a larger one).          *)
SmallTexts(alpha, maxlen) == UNION {[1..k -> alpha] : k \in 0..maxlen}
ASSUME \A pad \in {0, 32, 233} : \A left \in BOOLEAN : \A n \in 0..3 : \A s \in SmallTexts({pad, 65, 0}, 4) :
         /\ Len(PadFixed(s, n, pad, left)) = n
         /\ CanonFixed(s, n, pad, left) => TrimFixed(PadFixed(s, n, pad, left), pad, left) = s
         /\ Len(s) = n => PadFixed(TrimFixed(s, pad, left), n, pad, left) = s
=============================================================================
