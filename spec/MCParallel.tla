---------------------------- MODULE MCParallel ----------------------------
EXTENDS Parallel
CONSTANTS p1, p2, p3
MCProcs == {p1, p2, p3}
MCProcs2 == {p1, p2}
MCValues == {1, 2}
NoDev == {}
DevScratch == {"SharedScratch"}
DevClear == {"ClearOnSide"}
=============================================================================
