--------------------------- MODULE TraceRegistry ---------------------------
(***************************************************************************)
(* Linearizability of recorded concurrent histories of the REAL checksum   *)
(* registry (C19, direction B; no hooks involved).                         *)
(*                                                                         *)
(* The harness stamps every call's invocation and return with one atomic   *)
(* counter and writes the events in stamp order.  The linearization point  *)
(* is not observable, so it is an INTERNAL step of this specification:     *)
(*                                                                         *)
(*   TInv     consume an "inv" event: the call becomes pending             *)
(*   TLin(p)  the pending call of p takes effect on the sequential map     *)
(*   TRet     consume a "ret" event: p's call must have taken effect and   *)
(*            must have produced exactly the logged result                 *)
(*   TReset   consume a "reset" event between histories (map cleared)      *)
(*                                                                         *)
(* TLC searches for an order of the TLin steps; a history is linearizable  *)
(* iff some behaviour consumes all its events.  Acceptance is read from a  *)
(* high-water mark of l kept in a TLC register (needs -workers 1).         *)
(***************************************************************************)
EXTENDS Integers, Sequences, FiniteSets, TLC, Json, IOUtils

Trace == ndJsonDeserialize(IOEnv.VERIF_TRACE)

VARIABLES l, m, pend
vars == <<l, m, pend>>

Absent == <<>>
Lookup(mp, n) == IF n \in DOMAIN mp THEN mp[n] ELSE Absent

(* the sequential map: the same operations as ChecksumRegistry!SeqApply,   *)
(* over logged values (results are always tuples)                          *)
SeqApply(mp, o) ==
  CASE o.kind = "Registry" ->
         LET n == o.svc[1] IN
         IF Lookup(mp, n) # Absent THEN [m |-> mp, res |-> <<"F">>]
         ELSE [m |-> [x \in DOMAIN mp \cup {n} |-> IF x = n THEN o.svc ELSE mp[x]], res |-> <<"T">>]
    [] o.kind = "Get" -> [m |-> mp, res |-> Lookup(mp, o.name)]
    [] o.kind = "Remove" -> [m |-> [x \in DOMAIN mp \ {o.name} |-> mp[x]], res |-> <<"done">>]
    [] o.kind = "Clear" -> [m |-> <<>>, res |-> <<"done">>]

Init == l = 1 /\ m = <<>> /\ pend = <<>>

TInv ==
  /\ l <= Len(Trace) /\ Trace[l].e = "inv"
  /\ LET e == Trace[l] IN
     /\ e.p \notin DOMAIN pend
     /\ pend' = [x \in DOMAIN pend \cup {e.p} |-> IF x = e.p THEN [op |-> e.op, done |-> FALSE, res |-> <<>>] ELSE pend[x]]
  /\ l' = l + 1 /\ UNCHANGED m

TLin(p) ==
  /\ p \in DOMAIN pend /\ ~pend[p].done
  /\ LET r == SeqApply(m, pend[p].op) IN
     /\ m' = r.m
     /\ pend' = [pend EXCEPT ![p] = [op |-> pend[p].op, done |-> TRUE, res |-> r.res]]
  /\ UNCHANGED l

TRet ==
  /\ l <= Len(Trace) /\ Trace[l].e = "ret"
  /\ LET e == Trace[l] IN
     /\ e.p \in DOMAIN pend /\ pend[e.p].done
     /\ pend[e.p].res = e.res
     /\ pend' = [x \in DOMAIN pend \ {e.p} |-> pend[x]]
  /\ l' = l + 1 /\ UNCHANGED m

TReset ==
  /\ l <= Len(Trace) /\ Trace[l].e = "reset"
  /\ pend = <<>>
  /\ m' = <<>> /\ l' = l + 1 /\ UNCHANGED pend

Next == TInv \/ TRet \/ TReset \/ \E p \in DOMAIN pend : TLin(p)
Spec == Init /\ [][Next]_vars

(* high-water mark of l (register 1), updated from a state constraint *)
Mark == TLCSet(1, IF TLCGet(1) > l THEN TLCGet(1) ELSE l)
ASSUME TLCSet(1, 0)
Accepted == TLCGet(1) = Len(Trace) + 1 \/ PrintT(<<"REJECTED-AT", TLCGet(1)>>)
Report == PrintT(<<"HIGHWATER", TLCGet(1), Len(Trace)>>)
=============================================================================
