SPECIFICATION Spec
CONSTANTS
  MaxOps = 7
  Deviations <- NoDev
  JunkBytes <- MCJunk
  RegistryOps = FALSE
  Receivers = TRUE
  OpSet <- RcvOps
CHECK_DEADLOCK FALSE
VIEW ViewNoHist
INVARIANT FramesRight
INVARIANT HeadDecodes
INVARIANT ChannelShape
INVARIANT ReceiverIndependent
PROPERTY AppendOnly
