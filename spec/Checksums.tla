----------------------------- MODULE Checksums -----------------------------
(***************************************************************************)
(* The four named checksum algorithms, from their published definitions    *)
(* (C14).  Results are byte strings, most significant byte first.          *)
(*   CRC16    : CRC-16/MODBUS  (reflected, poly 0xA001, init 0xFFFF)       *)
(*   CRC32    : CRC-32/IEEE    (reflected, poly 0xEDB88320, init/xorout    *)
(*              0xFFFFFFFF)                                                *)
(*   SSE_BIN  : sum of all bytes modulo 256                                *)
(*   SZSE_BIN : sum of all bytes modulo 256                                *)
(* CRC-32 is computed on a <<hi16, lo16>> pair so that every intermediate  *)
(* value fits TLC's 32-bit integers.                                       *)
(***************************************************************************)
EXTENDS Bytes, Bitwise

RECURSIVE SumMod(_, _, _)
SumMod(s, i, acc) == IF i > Len(s) THEN acc ELSE SumMod(s, i + 1, (acc + s[i]) % 256)
Sum8(s) == SumMod(s, 1, 0)

(* sum of a run-length described string without expanding it *)
RECURSIVE Sum8Runs(_)
Sum8Runs(runs) == IF runs = <<>> THEN 0
                  ELSE (((runs[1].b * (runs[1].n % 256)) % 256) + Sum8Runs(Tail(runs))) % 256

---------------------------------------------------------------------------
(* CRC-16/MODBUS, bit by bit *)
RECURSIVE C16Bits(_, _)
C16Bits(c, k) == IF k = 0 THEN c
                 ELSE C16Bits(IF c % 2 = 1 THEN (c \div 2) ^^ 40961 ELSE c \div 2, k - 1)   \* 0xA001
RECURSIVE C16(_, _, _)
C16(s, i, c) == IF i > Len(s) THEN c ELSE C16(s, i + 1, C16Bits(c ^^ s[i], 8))
Crc16Val(s) == C16(s, 1, 65535)
Crc16Modbus(s) == Digits(Crc16Val(s), 2)

---------------------------------------------------------------------------
(* CRC-32/IEEE on a pair <<hi, lo>> of 16-bit halves *)
ShiftR1(p) == << p[1] \div 2, (p[2] \div 2) + (p[1] % 2) * 32768 >>
XorPoly(p) == << p[1] ^^ 60856, p[2] ^^ 33568 >>          \* 0xEDB8, 0x8320
RECURSIVE C32Bits(_, _)
C32Bits(p, k) == IF k = 0 THEN p
                 ELSE C32Bits(IF p[2] % 2 = 1 THEN XorPoly(ShiftR1(p)) ELSE ShiftR1(p), k - 1)
(* the 256-entry table, derived from the bitwise step *)
Crc32Table == [i \in 0..255 |-> C32Bits(<<0, i>>, 8)]
ShiftR8(p) == << p[1] \div 256, (p[2] \div 256) + (p[1] % 256) * 256 >>
C32Byte(p, b) == LET t == Crc32Table[(p[2] ^^ b) % 256]
                     q == ShiftR8(p)
                 IN << q[1] ^^ t[1], q[2] ^^ t[2] >>
C32ByteBitwise(p, b) == C32Bits(<<p[1], p[2] ^^ b>>, 8)
RECURSIVE C32(_, _, _)
C32(s, i, p) == IF i > Len(s) THEN p ELSE C32(s, i + 1, C32Byte(p, s[i]))
Crc32Pair(s) == LET p == C32(s, 1, <<65535, 65535>>) IN << p[1] ^^ 65535, p[2] ^^ 65535 >>
Crc32Ieee(s) == LET p == Crc32Pair(s) IN Digits(p[1], 2) \o Digits(p[2], 2)

---------------------------------------------------------------------------
(* The algorithm a service name stands for; result width in bytes.         *)
AlgNames == {"CRC16", "CRC32", "SSE_BIN", "SZSE_BIN"}
AlgWidth(a) == IF a = "CRC16" THEN 2 ELSE 4
Alg(a, s) == CASE a = "CRC16"    -> Crc16Modbus(s)
               [] a = "CRC32"    -> Crc32Ieee(s)
               [] a = "SSE_BIN"  -> Digits(Sum8(s), 4)
               [] a = "SZSE_BIN" -> Digits(Sum8(s), 4)

---------------------------------------------------------------------------
(* Self-checks: published check values for "123456789", and table-driven   *)
(* CRC-32 = bitwise CRC-32 on every table index.                           *)
Check9 == <<49, 50, 51, 52, 53, 54, 55, 56, 57>>
ASSUME Crc16Modbus(Check9) = <<75, 55>>                    \* 0x4B37
ASSUME Crc32Ieee(Check9) = <<203, 244, 57, 38>>            \* 0xCBF43926
ASSUME Sum8(Check9) = 221                                  \* 477 mod 256
ASSUME \A b \in 0..255 : C32Byte(<<4660, 22136>>, b) = C32ByteBitwise(<<4660, 22136>>, b)
ASSUME Sum8Runs(<< [b |-> 255, n |-> 300], [b |-> 7, n |-> 3] >>) = Sum8(Expand(<< [b |-> 255, n |-> 300], [b |-> 7, n |-> 3] >>))
ASSUME Crc32Ieee(<<>>) = <<0, 0, 0, 0>> /\ Crc16Modbus(<<>>) = <<255, 255>>
=============================================================================
