----------------------------- MODULE Checksums -----------------------------
(***************************************************************************)
(* The four named checksum algorithms, from their published definitions    *)
(* (C14).  Results are byte strings, most significant byte first.          *)
(*   CRC16    : CRC-16/MODBUS  (reflected, poly 0xA001, init 0xFFFF)       *)
(*   CRC32    : CRC-32/IEEE    (reflected, poly 0xEDB88320, init/xorout    *)
(*              0xFFFFFFFF)                                                *)
(*   SSE_BIN  : sum of all bytes modulo 256                                *)
(*   SZSE_BIN : sum of all bytes modulo 256                                *)
(* CRC-32 is computed on a <<hi16, lo16>> pair so that every intermediate  *)
(* value fits TLC's 32-bit integers.                                       *)
(***************************************************************************)
EXTENDS Bytes, Bitwise, SequencesExt

(* Long inputs: the folds below use SequencesExt!FoldLeft, which TLC runs   *)
(* as a Java loop (strict, constant stack depth).  A hand-written          *)
(* RECURSIVE operator with an accumulator would build a chain of lazy      *)
(* argument thunks as long as the input.                                   *)
Sum8(s) == FoldLeft(LAMBDA acc, b : (acc + b) % 256, 0, s)

(* sum of a run-length described string without expanding it *)
RECURSIVE Sum8Runs(_)
Sum8Runs(runs) == IF runs = <<>> THEN 0
                  ELSE (((runs[1].b * (runs[1].n % 256)) % 256) + Sum8Runs(Tail(runs))) % 256

---------------------------------------------------------------------------
(* CRC-16/MODBUS, bit by bit *)
RECURSIVE C16Bits(_, _)
C16Bits(c, k) == IF k = 0 THEN c
                 ELSE C16Bits(IF c % 2 = 1 THEN (c \div 2) ^^ 40961 ELSE c \div 2, k - 1)   \* 0xA001
Crc16Val(s) == FoldLeft(LAMBDA c, b : C16Bits(c ^^ b, 8), 65535, s)
Crc16Modbus(s) == Digits(Crc16Val(s), 2)

---------------------------------------------------------------------------
(* CRC-32/IEEE on a pair <<hi, lo>> of 16-bit halves *)
ShiftR1(p) == << p[1] \div 2, (p[2] \div 2) + (p[1] % 2) * 32768 >>
XorPoly(p) == << p[1] ^^ 60856, p[2] ^^ 33568 >>          \* 0xEDB8, 0x8320
RECURSIVE C32Bits(_, _)
C32Bits(p, k) == IF k = 0 THEN p
                 ELSE C32Bits(IF p[2] % 2 = 1 THEN XorPoly(ShiftR1(p)) ELSE ShiftR1(p), k - 1)
(* the 256-entry table, derived from the bitwise step.  It is handed down   *)
(* as an argument (a LET-bound value is computed once per call): TLC would  *)
(* otherwise re-derive it at every use.                                      *)
Crc32Table == [i \in 0..255 |-> C32Bits(<<0, i>>, 8)]
ShiftR8(p) == << p[1] \div 256, (p[2] \div 256) + (p[1] % 256) * 256 >>
C32ByteT(tab, p, b) == LET t == tab[(p[2] ^^ b) % 256]
                           q == ShiftR8(p)
                       IN << q[1] ^^ t[1], q[2] ^^ t[2] >>
C32Byte(p, b) == C32ByteT(Crc32Table, p, b)
C32ByteBitwise(p, b) == C32Bits(<<p[1], p[2] ^^ b>>, 8)
Crc32Pair(s) == LET tab == Crc32Table
                    p == FoldLeft(LAMBDA q, b : C32ByteT(tab, q, b), <<65535, 65535>>, s)
                IN << p[1] ^^ 65535, p[2] ^^ 65535 >>
Crc32Ieee(s) == LET p == Crc32Pair(s) IN Digits(p[1], 2) \o Digits(p[2], 2)

---------------------------------------------------------------------------
(* The algorithm a service name stands for; result width in bytes.         *)
AlgNames == {"CRC16", "CRC32", "SSE_BIN", "SZSE_BIN"}
AlgWidth(a) == IF a = "CRC16" THEN 2 ELSE 4
Alg(a, s) == CASE a = "CRC16"    -> Crc16Modbus(s)
               [] a = "CRC32"    -> Crc32Ieee(s)
               [] a = "SSE_BIN"  -> Digits(Sum8(s), 4)
               [] a = "SZSE_BIN" -> Digits(Sum8(s), 4)

---------------------------------------------------------------------------
(* Self-checks: published check values for "123456789", and table-driven   *)
(* CRC-32 = bitwise CRC-32 on every table index.                           *)
Check9 == <<49, 50, 51, 52, 53, 54, 55, 56, 57>>
ASSUME Crc16Modbus(Check9) = <<75, 55>>                    \* 0x4B37
ASSUME Crc32Ieee(Check9) = <<203, 244, 57, 38>>            \* 0xCBF43926
ASSUME Sum8(Check9) = 221                                  \* 477 mod 256
ASSUME \A b \in 0..255 : C32Byte(<<4660, 22136>>, b) = C32ByteBitwise(<<4660, 22136>>, b)
ASSUME Sum8Runs(<< [b |-> 255, n |-> 300], [b |-> 7, n |-> 3] >>) = Sum8(Expand(<< [b |-> 255, n |-> 300], [b |-> 7, n |-> 3] >>))
ASSUME Crc32Ieee(<<>>) = <<0, 0, 0, 0>> /\ Crc16Modbus(<<>>) = <<255, 255>>
=============================================================================
