SPECIFICATION Spec
CONSTANTS
  p1 = p1
  p2 = p2
  p3 = p3
  None = None
  Procs <- MCProcs3
  Names <- MCNames
  Services <- MCServices
  MaxCalls = 2
  Deviations <- DevClearPerName
  CallAllowed <- WalkAllowed

CHECK_DEADLOCK FALSE
INVARIANT Linearizable
