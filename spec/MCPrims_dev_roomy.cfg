SPECIFICATION Spec
CONSTANTS
  Calls <- AllCalls
  BreakPair = FALSE
  SpareLen = 320
  SpareDev = "RoomySkipsCheck"
CHECK_DEADLOCK FALSE
INVARIANT WrapRefused
