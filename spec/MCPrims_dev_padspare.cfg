SPECIFICATION Spec
CONSTANTS
  Calls <- AllCalls
  BreakPair = FALSE
  SpareLen = 320
  SpareDev = "PadFromSpare"
CHECK_DEADLOCK FALSE
INVARIANT ReadBack
