SPECIFICATION Spec
CONSTANTS
  Calls <- AllCallsThorough
  BreakPair = FALSE
  SpareLen = 320
  SpareDev = "none"
CHECK_DEADLOCK FALSE
INVARIANT ExactWidth
INVARIANT ReadBack
INVARIANT PairRelation
INVARIANT WrapRefused
INVARIANT SpareIgnored
INVARIANT Export
