SPECIFICATION Spec
CONSTANTS
  Calls <- AllCallsThorough
  BreakPair = FALSE
CHECK_DEADLOCK FALSE
INVARIANT ExactWidth
INVARIANT ReadBack
INVARIANT PairRelation
INVARIANT WrapRefused
INVARIANT Export
