-------------------------- MODULE ChecksumRegistry --------------------------
(***************************************************************************)
(* The checksum-service registry (codec/checksum.go) under concurrency,    *)
(* at the granularity of the code's critical sections (C19):               *)
(*                                                                         *)
(*   Call(p, o)     goroutine p invokes Registry/Get/Remove/Clear          *)
(*   Acquire(p)     p obtains the RWMutex (Get: read lock; others: write)  *)
(*   Finish(p)      p runs its critical section (exists-check + insert,    *)
(*                  look-up, delete, swap), releases the lock and returns  *)
(*                                                                         *)
(* The hooks verifPoint("..:enter") / ("..:locked") of the instrumented    *)
(* build sit exactly between these actions, so a behaviour of this model   *)
(* is a schedule the harness can force on real goroutines.                 *)
(*                                                                         *)
(* Named deviations (disabled unless listed in Deviations) are realistic   *)
(* ways the code could depart; each must violate an invariant:             *)
(*   SplitCheckInsert  Registry checks under a read lock, releases, then   *)
(*                     inserts under the write lock without re-checking    *)
(*   GetWithoutLock    Get reads the map without taking the lock           *)
(*   ReadLockForWrite  Remove takes only the read lock                     *)
(*   ClearPerName      Clear empties the map one name at a time, releasing *)
(*                     the lock in between (a lock per shard)              *)
(***************************************************************************)
EXTENDS Integers, Sequences, FiniteSets, TLC

CONSTANTS Procs, Names, Services, MaxCalls, Deviations, None
ASSUME None \notin Procs /\ None \notin Services

(* a service is <<name, instance>>: Algorithm() of service s is s[1] *)
SvcName(s) == s[1]

Ops == [kind : {"Registry"}, svc : Services] \cup [kind : {"Get", "Remove"}, name : Names] \cup [kind : {"Clear"}]

VARIABLES cache,    \* [Names -> Services \cup {None}]
          writer,   \* the goroutine holding the write lock, or None
          readers,  \* the goroutines holding the read lock
          pc,       \* [Procs -> {"idle", "waiting", "locked", "checked", "waiting2", "locked2"}]
          op,       \* [Procs -> Ops \cup {None}]
          ret,      \* [Procs -> result of the last finished call]: <<"T">>/<<"F">>, the service found or <<>>, <<"done">>
          ncalls,   \* [Procs -> Nat]
          seen,     \* ghost: what the split check observed
          wins,     \* ghost: successful registrations of a name since it was last removed / cleared
          winner,   \* ghost: the service whose registration succeeded first since then
          hist,     \* ghost: completed calls [p, op, res, inv, rsp] (logical stamps)
          clock,    \* ghost: logical time (advances at Call and at Finish)
          inv,      \* ghost: invocation stamp of the pending call
          racing    \* ghost: an unprotected access overlapped a write section

vars == <<cache, writer, readers, pc, op, ret, ncalls, seen, wins, winner, hist, clock, inv, racing>>

Dev(d) == d \in Deviations

Init ==
  /\ cache = [n \in Names |-> None]
  /\ writer = None /\ readers = {}
  /\ pc = [p \in Procs |-> "idle"]
  /\ op = [p \in Procs |-> None]
  /\ ret = [p \in Procs |-> <<>>]
  /\ ncalls = [p \in Procs |-> 0]
  /\ seen = [p \in Procs |-> None]
  /\ wins = [n \in Names |-> 0]
  /\ winner = [n \in Names |-> None]
  /\ hist = <<>> /\ clock = 0
  /\ inv = [p \in Procs |-> 0]
  /\ racing = FALSE

(* which calls a goroutine may make (all of them; a configuration may narrow this to keep a scenario small) *)
CallAllowed(p, o) == TRUE

Call(p, o) ==
  /\ pc[p] = "idle" /\ ncalls[p] < MaxCalls /\ CallAllowed(p, o)
  /\ pc' = [pc EXCEPT ![p] = "waiting"]
  /\ op' = [op EXCEPT ![p] = o]
  /\ ncalls' = [ncalls EXCEPT ![p] = @ + 1]
  /\ clock' = clock + 1
  /\ inv' = [inv EXCEPT ![p] = clock + 1]
  /\ UNCHANGED <<cache, writer, readers, ret, seen, wins, winner, hist, racing>>

(* which lock does the call take first? *)
WantsRead(p) == \/ op[p].kind = "Get"
                \/ (op[p].kind = "Registry" /\ Dev("SplitCheckInsert") /\ pc[p] = "waiting")
                \/ (op[p].kind = "Remove" /\ Dev("ReadLockForWrite"))
NoLock(p) == op[p].kind = "Get" /\ Dev("GetWithoutLock")

Acquire(p) ==
  /\ pc[p] \in {"waiting", "waiting2"}
  /\ IF NoLock(p) THEN UNCHANGED <<writer, readers>>
     ELSE IF WantsRead(p)
          THEN /\ writer = None
               /\ readers' = readers \cup {p} /\ UNCHANGED writer
          ELSE /\ writer = None /\ readers = {}
               /\ writer' = p /\ UNCHANGED readers
  /\ pc' = [pc EXCEPT ![p] = IF pc[p] = "waiting" THEN "locked" ELSE "locked2"]
  /\ racing' = (racing \/ (NoLock(p) /\ writer # None))
  /\ UNCHANGED <<cache, op, ret, ncalls, seen, wins, winner, hist, clock, inv>>

Release(p) ==
  /\ writer' = IF writer = p THEN None ELSE writer
  /\ readers' = readers \ {p}

Complete(p, res) ==
  /\ ret' = [ret EXCEPT ![p] = res]
  /\ clock' = clock + 1
  /\ hist' = Append(hist, [p |-> p, op |-> op[p], res |-> res, inv |-> inv[p], rsp |-> clock + 1])
  /\ pc' = [pc EXCEPT ![p] = "idle"]
  /\ op' = [op EXCEPT ![p] = None]

(* the critical section of each operation, exactly as in checksum.go *)
Finish(p) ==
  /\ pc[p] \in {"locked", "locked2"}
  /\ LET o == op[p] IN
     CASE o.kind = "Registry" /\ Dev("SplitCheckInsert") /\ pc[p] = "locked" ->
            (* deviation: only the exists-check happens here *)
            /\ seen' = [seen EXCEPT ![p] = cache[SvcName(o.svc)]]
            /\ Release(p)
            /\ IF cache[SvcName(o.svc)] # None
               THEN Complete(p, <<"F">>) /\ UNCHANGED <<cache, wins, winner>>
               ELSE /\ pc' = [pc EXCEPT ![p] = "waiting2"]
                    /\ UNCHANGED <<cache, op, ret, wins, winner, hist, clock>>
       [] o.kind = "Registry" /\ Dev("SplitCheckInsert") /\ pc[p] = "locked2" ->
            (* deviation, second half: insert without re-checking *)
            /\ cache' = [cache EXCEPT ![SvcName(o.svc)] = o.svc]
            /\ wins' = [wins EXCEPT ![SvcName(o.svc)] = @ + 1]
            /\ winner' = [winner EXCEPT ![SvcName(o.svc)] = IF @ = None THEN o.svc ELSE @]
            /\ Release(p) /\ Complete(p, <<"T">>) /\ UNCHANGED seen
       [] o.kind = "Registry" /\ ~Dev("SplitCheckInsert") ->
            LET n == SvcName(o.svc) IN
            /\ IF cache[n] # None
               THEN Complete(p, <<"F">>) /\ UNCHANGED <<cache, wins, winner>>
               ELSE /\ cache' = [cache EXCEPT ![n] = o.svc]
                    /\ wins' = [wins EXCEPT ![n] = @ + 1]
                    /\ winner' = [winner EXCEPT ![n] = o.svc]
                    /\ Complete(p, <<"T">>)
            /\ Release(p) /\ UNCHANGED seen
       [] o.kind = "Get" ->
            /\ Complete(p, IF cache[o.name] = None THEN <<>> ELSE cache[o.name]) /\ Release(p)
            /\ UNCHANGED <<cache, wins, winner, seen>>
       [] o.kind = "Remove" ->
            /\ cache' = [cache EXCEPT ![o.name] = None]
            /\ wins' = [wins EXCEPT ![o.name] = 0]
            /\ winner' = [winner EXCEPT ![o.name] = None]
            /\ Complete(p, <<"done">>) /\ Release(p) /\ UNCHANGED seen
       [] o.kind = "Clear" /\ Dev("ClearPerName") ->
            (* deviation: the registry is emptied one name at a time, the lock released in between *)
            (* (a sharded map with a lock per shard); seen[p] holds the names still to be visited   *)
            LET todo == IF seen[p] = None THEN Names ELSE seen[p]
                n == CHOOSE x \in todo : TRUE
            IN /\ cache' = [cache EXCEPT ![n] = None]
               /\ wins' = [wins EXCEPT ![n] = 0]
               /\ winner' = [winner EXCEPT ![n] = None]
               /\ Release(p)
               /\ IF todo \ {n} = {}
                  THEN Complete(p, <<"done">>) /\ seen' = [seen EXCEPT ![p] = None]
                  ELSE /\ seen' = [seen EXCEPT ![p] = todo \ {n}]
                       /\ pc' = [pc EXCEPT ![p] = "waiting2"]
                       /\ UNCHANGED <<op, ret, hist, clock>>
       [] o.kind = "Clear" /\ ~Dev("ClearPerName") ->
            /\ cache' = [n \in Names |-> None]
            /\ wins' = [n \in Names |-> 0]
            /\ winner' = [n \in Names |-> None]
            /\ Complete(p, <<"done">>) /\ Release(p) /\ UNCHANGED seen
  /\ racing' = (racing \/ (op[p].kind = "Remove" /\ Dev("ReadLockForWrite") /\ Cardinality(readers) > 1))
  /\ UNCHANGED <<ncalls, inv>>

Next == \E p \in Procs : (\E o \in Ops : Call(p, o)) \/ Acquire(p) \/ Finish(p)

Spec == Init /\ [][Next]_vars

---------------------------------------------------------------------------
TypeOK ==
  /\ cache \in [Names -> Services \cup {None}]
  /\ writer \in Procs \cup {None} /\ readers \subseteq Procs

MutualExclusion == writer # None => readers = {}
NoRace == ~racing
RightName == \A n \in Names : cache[n] # None => SvcName(cache[n]) = n
OneWinner == \A n \in Names : wins[n] <= 1
WinnerSticks == \A n \in Names : cache[n] = winner[n]

(* Linearizability of the completed calls: module RegistryLin (kept apart:   *)
(* its RECURSIVE search is for TLC; RegistryProofs is read by TLAPS).       *)

(* hist/clock/inv are observation-only: they do not influence behaviour.   *)
(* The quick configuration hides them behind a VIEW for the invariants     *)
(* that do not read them; the Linearizable configuration keeps them.       *)
ViewNoHist == <<cache, writer, readers, pc, op, ret, ncalls, seen, wins, winner, racing>>
=============================================================================
