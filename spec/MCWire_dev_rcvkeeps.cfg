SPECIFICATION Spec
CONSTANTS
  MaxOps = 6
  Deviations <- DevRcvKeeps
  JunkBytes <- MCJunk
  RegistryOps = FALSE
  Receivers = TRUE
  OpSet <- RcvOps
CHECK_DEADLOCK FALSE
VIEW ViewNoHist
INVARIANT ReceiverIndependent
