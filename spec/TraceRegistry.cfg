SPECIFICATION Spec
CONSTRAINT Mark
POSTCONDITION Report
CHECK_DEADLOCK FALSE
