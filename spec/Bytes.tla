------------------------------- MODULE Bytes -------------------------------
(***************************************************************************)
(* Byte strings and the primitive renderings the wire formats are made of. *)
(* Every operator here is a transcription of a published definition or of  *)
(* a property statement (C03, C13, C18) - never of the Go code.            *)
(*                                                                         *)
(* TLC integers are 32-bit, so no 32/64-bit field value is ever a TLC      *)
(* integer: numbers are their bit pattern, a sequence of bytes, most       *)
(* significant first.  Only lengths and counts (small) become integers.    *)
(***************************************************************************)
EXTENDS Integers, Sequences, FiniteSets

Byte == 0..255

Rev(s) == [i \in 1..Len(s) |-> s[Len(s) + 1 - i]]

(* A number (digits most significant first) as it appears on the wire.     *)
Ord(e, ds) == IF e = "LE" THEN Rev(ds) ELSE ds

Rep(b, k) == [i \in 1..k |-> b]

RECURSIVE Digits(_, _)
(* n >= 0 rendered in exactly w base-256 digits, MSB first (n mod 256^w).  *)
Digits(n, w) == IF w = 0 THEN <<>> ELSE Append(Digits(n \div 256, w - 1), n % 256)

Pow256(w) == CASE w = 0 -> 1 [] w = 1 -> 256 [] w = 2 -> 65536 [] w = 3 -> 16777216

(* Does the natural n fit an unsigned prefix of w bytes?  (C18)            *)
Fits(n, w) == w >= 4 \/ n < Pow256(w)

Huge == 1073741824   \* 2^30: stands for "at least this much"

RECURSIVE Val3(_)
Val3(ds) == IF ds = <<>> THEN 0 ELSE Val3(SubSeq(ds, 1, Len(ds) - 1)) * 256 + ds[Len(ds)]

(* The natural denoted by digits ds (MSB first), capped: anything that does *)
(* not fit 3 digits is reported as Huge.  Counts are only ever compared     *)
(* with the number of bytes present, which is far below 2^24.               *)
ValCap(ds) ==
  LET n == Len(ds)
      hi == IF n > 3 THEN SubSeq(ds, 1, n - 3) ELSE <<>>
      lo == IF n > 3 THEN SubSeq(ds, n - 2, n) ELSE ds
  IN IF \E i \in 1..Len(hi) : hi[i] # 0 THEN Huge ELSE Val3(lo)

MaxOf(S) == CHOOSE x \in S : \A y \in S : y <= x
MinOf(S) == CHOOSE x \in S : \A y \in S : x <= y

(***************************************************************************)
(* Fixed-width text (C13, literally):                                      *)
(*   write: exactly n bytes; shorter -> padded with pad on the pad side,   *)
(*          longer -> cut to its first n bytes, n bytes -> verbatim;       *)
(*   read : the n bytes with only the pad byte stripped, only from the     *)
(*          pad side.                                                      *)
(***************************************************************************)
PadFixed(s, n, pad, left) ==
  IF Len(s) >= n THEN SubSeq(s, 1, n)
  ELSE IF left THEN Rep(pad, n - Len(s)) \o s ELSE s \o Rep(pad, n - Len(s))

TrimFixed(bs, pad, left) ==
  LET keep == {i \in 1..Len(bs) : bs[i] # pad}
  IN IF keep = {} THEN <<>>
     ELSE IF left THEN SubSeq(bs, MinOf(keep), Len(bs)) ELSE SubSeq(bs, 1, MaxOf(keep))

(* Canonical text for a fixed field: fits, and no pad byte on the pad side. *)
CanonFixed(s, n, pad, left) ==
  /\ Len(s) <= n
  /\ Len(s) > 0 => IF left THEN s[1] # pad ELSE s[Len(s)] # pad

IsPrefixOf(p, s) == Len(p) <= Len(s) /\ \A i \in 1..Len(p) : p[i] = s[i]
IsSuffixOf(p, s) == Len(p) <= Len(s) /\ \A i \in 1..Len(p) : p[i] = s[Len(s) - Len(p) + i]
Drop(s, k) == SubSeq(s, k + 1, Len(s))
Take(s, k) == SubSeq(s, 1, k)

(* Run-length described byte strings for very long inputs (C14, C18).      *)
RECURSIVE Expand(_)
Expand(runs) == IF runs = <<>> THEN <<>> ELSE Rep(runs[1].b, runs[1].n) \o Expand(Tail(runs))
=============================================================================
