---------------------------- MODULE MCRegistry ----------------------------
EXTENDS RegistryLin
CONSTANTS p1, p2, p3
MCNames == {"A", "B"}
MCServices == {<<"A", 1>>, <<"A", 2>>, <<"B", 1>>}
MCProcs3 == {p1, p2, p3}
MCProcs2 == {p1, p2}
NoDev == {}
DevSplit == {"SplitCheckInsert"}
DevGetNoLock == {"GetWithoutLock"}
DevReadLock == {"ReadLockForWrite"}
DevClearPerName == {"ClearPerName"}
(* the scenario of a Clear that is not atomic over the names: one goroutine registers, one clears, one looks up *)
WalkAllowed(p, o) == \/ p = p1 /\ o.kind = "Registry" /\ o.svc \in {<<"A", 1>>, <<"B", 1>>}
                     \/ p = p2 /\ o.kind = "Clear"
                     \/ p = p3 /\ o.kind = "Get"
=============================================================================
