---------------------------- MODULE MCRegistry ----------------------------
EXTENDS RegistryLin
CONSTANTS p1, p2, p3
MCNames == {"A", "B"}
MCServices == {<<"A", 1>>, <<"A", 2>>, <<"B", 1>>}
MCProcs3 == {p1, p2, p3}
MCProcs2 == {p1, p2}
NoDev == {}
DevSplit == {"SplitCheckInsert"}
DevGetNoLock == {"GetWithoutLock"}
DevReadLock == {"ReadLockForWrite"}
=============================================================================
