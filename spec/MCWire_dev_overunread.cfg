SPECIFICATION Spec
CONSTANTS
  MaxOps = 2
  Deviations <- DevOverUnread
  JunkBytes <- MCJunk
CHECK_DEADLOCK FALSE
VIEW ViewNoHist
INVARIANT FramesRight
