SPECIFICATION Spec
CONSTANTS
  MaxOps = 2
  Deviations <- DevOverUnread
  JunkBytes <- MCJunk
  RegistryOps = FALSE
CHECK_DEADLOCK FALSE
VIEW ViewNoHist
INVARIANT FramesRight
