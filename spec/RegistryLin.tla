---------------------------- MODULE RegistryLin ----------------------------
(***************************************************************************)
(* Linearizability of the checksum-service registry's completed calls, as  *)
(* a state predicate over the ghost history of ChecksumRegistry (C19).     *)
(***************************************************************************)
EXTENDS ChecksumRegistry

(* Linearizability of the completed calls (checked at quiescent states):   *)
(* some total order of them respects real time (a call that returned       *)
(* before another was invoked comes first) and, replayed on a sequential   *)
(* map, gives every call the result it returned.                           *)
SeqApply(m, o) ==
  CASE o.kind = "Registry" -> IF m[SvcName(o.svc)] # None THEN [m |-> m, res |-> <<"F">>]
                              ELSE [m |-> [m EXCEPT ![SvcName(o.svc)] = o.svc], res |-> <<"T">>]
    [] o.kind = "Get" -> [m |-> m, res |-> IF m[o.name] = None THEN <<>> ELSE m[o.name]]
    [] o.kind = "Remove" -> [m |-> [m EXCEPT ![o.name] = None], res |-> <<"done">>]
    [] o.kind = "Clear" -> [m |-> [n \in Names |-> None], res |-> <<"done">>]

RECURSIVE Explains(_, _, _)
(* can the calls in `todo` (indices into hist) be ordered after map m? *)
Explains(m, todo, done) ==
  IF todo = {} THEN TRUE
  ELSE \E i \in todo :
         /\ \A j \in todo \ {i} : ~(hist[j].rsp < hist[i].inv)     \* nobody still to come returned before i was invoked
         /\ LET r == SeqApply(m, hist[i].op) IN
            r.res = hist[i].res /\ Explains(r.m, todo \ {i}, done \cup {i})

Quiescent == \A p \in Procs : pc[p] = "idle"
Linearizable == Quiescent => Explains([n \in Names |-> None], 1..Len(hist), {})
=============================================================================
