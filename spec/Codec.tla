------------------------------- MODULE Codec -------------------------------
(***************************************************************************)
(* The independent interpreter of the pinned wire schema (C02).            *)
(*                                                                         *)
(*   EncMsg(T, v)     the bytes message v of pinned type T has on the wire *)
(*   DecMsg(T, w, p)  parse one T from byte string w starting at index p   *)
(*                                                                         *)
(* Field order, widths, byte order (ONE per protocol), pad byte and side,  *)
(* prefix widths, discriminator tables, self-computed length and checksum  *)
(* all come from schema/pinned.json, read with the CommunityModules Json   *)
(* module.  Nothing here shares code with encoding/binary, bytes.Trim*,    *)
(* hash/crc32 or the generated Go files.                                   *)
(*                                                                         *)
(* Values: records keyed by Go field name plus "_t" (type tag); numbers    *)
(* are byte strings MSB first; text is a byte string; nil is [_t |-> "nil"]*)
(***************************************************************************)
EXTENDS Checksums, Json, IOUtils, TLC   \* (Checksums brings SequencesExt: FoldLeft)

Schema == JsonDeserialize(IOEnv.VERIF_SCHEMA)

TypeNames == DOMAIN Schema.types
FieldsOf(T) == Schema.types[T].fields
EndianOf(T) == Schema.protocols[Schema.types[T].proto].endian
TableNames == DOMAIN Schema.tables

NilV == [_t |-> "nil"]
IsNil(v) == v["_t"] = "nil"

(* discriminator look-up: the pinned body type of key bytes k, or "none" *)
Lookup(tab, k) ==
  LET es == Schema.tables[tab].entries
      hits == {i \in 1..Len(es) : es[i].key = k}
  IN IF hits = {} THEN "none" ELSE es[CHOOSE i \in hits : TRUE].type

FieldNamed(T, n) == LET fs == FieldsOf(T) IN fs[CHOOSE i \in 1..Len(fs) : fs[i].name = n]

(* The look-up key as the ENCODER sees it: the key field's value as held.  *)
(* (Text keys are compared as held, numeric keys by their digits.)         *)
EncKey(T, v, f) == v[f.key]

IsFrameLen(f) == f.kind = "len"

---------------------------------------------------------------------------
(* Zero value of a type (what a factory returns). *)
ZeroField(f) ==
  CASE f.kind \in {"int", "len", "checksum"} -> Rep(0, f.w)
    [] f.kind \in {"fixed", "str", "list", "objlist"} -> <<>>
    [] f.kind \in {"obj", "body"} -> NilV
ZeroValue(T) ==
  LET fs == FieldsOf(T)
      names == {fs[i].name : i \in 1..Len(fs)}
  IN [n \in names \cup {"_t"} |->
        IF n = "_t" THEN T ELSE ZeroField(fs[CHOOSE i \in 1..Len(fs) : fs[i].name = n])]

---------------------------------------------------------------------------
(* Encoding.  Accumulator: ok, bytes emitted for THIS message, mask (same  *)
(* length as bytes: 0 for a byte that is not part of a multi-byte integer, *)
(* otherwise kind*16 + number of bytes of the integer from here to its     *)
(* end; used by C03 to tell a byte-order disagreement from any other),     *)
(* val (the object as the call leaves it: computed length/checksum written *)
(* back, a missing body/extension materialised), lenpos (index of the      *)
(* length placeholder in bytes, 0 if none), why (reason of a refusal).     *)
(***************************************************************************)
KScalar == 1  KListCount == 2  KListElem == 3  KStrPrefix == 4  KObjCount == 5  KLen == 6  KCsum == 7
KFixedMark == 1     \* a byte of a fixed-width text field (not an integer slot: integer slots are >= 17)
IntMask(k, w) == IF w < 2 THEN Rep(0, w) ELSE [i \in 1..w |-> k * 16 + (w + 1 - i)]

Out(b, m) == [ok |-> TRUE, bytes |-> b, mask |-> m]
NoOut == [ok |-> FALSE, bytes |-> <<>>, mask |-> <<>>]

EncElem(E, e, x) ==
  CASE e.kind = "int"   -> Out(Ord(E, x), IntMask(KListElem, Len(x)))
    [] e.kind = "fixed" -> Out(PadFixed(x, e.n, e.pad, e.left), Rep(KFixedMark, e.n))
    [] e.kind = "str"   -> IF Fits(Len(x), e.pw)
                           THEN Out(Ord(E, Digits(Len(x), e.pw)) \o x, IntMask(KStrPrefix, e.pw) \o Rep(0, Len(x)))
                           ELSE NoOut

RECURSIVE EncRange(_, _, _, _, _)
(* elements lo..hi, concatenated by halves (n log n copying, lists of 65,535 elements stay cheap) *)
EncRange(E, e, xs, lo, hi) ==
  IF lo > hi THEN Out(<<>>, <<>>)
  ELSE IF lo = hi THEN EncElem(E, e, xs[lo])
  ELSE LET mid == (lo + hi) \div 2
           a == EncRange(E, e, xs, lo, mid)
       IN IF ~a.ok THEN a
          ELSE LET b == EncRange(E, e, xs, mid + 1, hi) IN
               IF ~b.ok THEN b ELSE Out(a.bytes \o b.bytes, a.mask \o b.mask)
EncElems(E, e, xs, i) == EncRange(E, e, xs, i, Len(xs))

RECURSIVE EncMsg(_, _)
RECURSIVE EncObjs(_, _, _)
RECURSIVE EncFold(_, _, _, _)

Fail(acc, why) == [acc EXCEPT !.ok = FALSE, !.why = why]
App(acc, b, m) == [acc EXCEPT !.bytes = @ \o b, !.mask = @ \o m]

EncStep(T, E, acc, f) ==
  LET x == acc.val[f.name] IN
  CASE f.kind = "int" -> App(acc, Ord(E, x), IntMask(KScalar, Len(x)))
    [] f.kind = "fixed" -> App(acc, PadFixed(x, f.n, f.pad, f.left), Rep(KFixedMark, f.n))
    [] f.kind = "str" ->
         IF Fits(Len(x), f.pw) THEN App(acc, Ord(E, Digits(Len(x), f.pw)) \o x, IntMask(KStrPrefix, f.pw) \o Rep(0, Len(x)))
         ELSE Fail(acc, "prefix-overflow")
    [] f.kind = "list" ->
         IF ~Fits(Len(x), f.pw) THEN Fail(acc, "prefix-overflow")
         ELSE LET r == EncElems(E, f.elem, x, 1) IN
              IF r.ok THEN App(acc, Ord(E, Digits(Len(x), f.pw)) \o r.bytes, IntMask(KListCount, f.pw) \o r.mask)
              ELSE Fail(acc, "prefix-overflow")
    [] f.kind = "obj" ->
         (* an absent nested part is materialised as its zero value, as the decoder does *)
         (* (C17 asks only for "bytes or an error"; this is what the repaired code does)  *)
         LET r == EncMsg(f.type, IF IsNil(x) THEN ZeroValue(f.type) ELSE x) IN
         IF r.ok THEN [App(acc, r.bytes, r.mask) EXCEPT !.val[f.name] = r.val]
         ELSE Fail(acc, r.why)
    [] f.kind = "objlist" ->
         IF ~Fits(Len(x), f.pw) THEN Fail(acc, "prefix-overflow")
         ELSE LET r == EncObjs(f.type, x, 1) IN
              IF r.ok THEN [App(acc, Ord(E, Digits(Len(x), f.pw)) \o r.bytes, IntMask(KObjCount, f.pw) \o r.mask)
                              EXCEPT !.val[f.name] = r.vals]
              ELSE Fail(acc, r.why)
    [] f.kind = "len" -> [App(acc, <<0, 0, 0, 0>>, IntMask(KLen, 4)) EXCEPT !.lenpos = Len(acc.bytes) + 1, !.lenname = f.name]
    [] f.kind = "body" ->
         LET bv == IF ~IsNil(x) THEN x
                   ELSE IF f["nil"] = "skip" THEN NilV
                   ELSE LET bt == Lookup(f.table, EncKey(T, acc.val, f)) IN
                        IF bt = "none" THEN [_t |-> "none"] ELSE ZeroValue(bt)
         IN IF bv["_t"] = "none" THEN Fail(acc, "unknown-key")
            ELSE LET r == IF IsNil(bv) THEN [ok |-> TRUE, bytes |-> <<>>, mask |-> <<>>, val |-> NilV, why |-> ""]
                          ELSE IF bv["_t"] \in TypeNames THEN EncMsg(bv["_t"], bv)
                          ELSE [ok |-> FALSE, bytes |-> <<>>, mask |-> <<>>, val |-> NilV, why |-> "foreign-body"]
                 IN IF ~r.ok THEN Fail(acc, r.why)
                    ELSE LET a1 == [App(acc, r.bytes, r.mask) EXCEPT !.val[f.name] = r.val] IN
                         IF acc.lenpos = 0 THEN a1
                         ELSE LET n == Digits(Len(r.bytes), 4)
                                  d == Ord(E, n)
                              IN [a1 EXCEPT !.bytes = [i \in 1..Len(a1.bytes) |->
                                                         IF i >= acc.lenpos /\ i < acc.lenpos + 4
                                                         THEN d[i - acc.lenpos + 1] ELSE a1.bytes[i]],
                                            !.val[acc.lenname] = n]
    [] f.kind = "checksum" ->
         LET c == Alg(f.alg, acc.bytes) IN
         [App(acc, Ord(E, c), IntMask(KCsum, 4)) EXCEPT !.val[f.name] = c]

EncFold(T, E, acc, i) ==
  LET fs == FieldsOf(T) IN
  IF i > Len(fs) \/ ~acc.ok THEN acc ELSE EncFold(T, E, EncStep(T, E, acc, fs[i]), i + 1)

EncMsg(T, v) ==
  LET r == EncFold(T, EndianOf(T), [ok |-> TRUE, bytes |-> <<>>, mask |-> <<>>, val |-> v, lenpos |-> 0, lenname |-> "", why |-> ""], 1)
  IN [ok |-> r.ok, bytes |-> r.bytes, mask |-> r.mask, val |-> r.val, why |-> r.why]

RECURSIVE EncObjRange(_, _, _, _)
EncObjRange(T, xs, lo, hi) ==
  IF lo > hi THEN [ok |-> TRUE, bytes |-> <<>>, mask |-> <<>>, vals |-> <<>>, why |-> ""]
  ELSE IF lo = hi THEN
       IF IsNil(xs[lo]) THEN [ok |-> FALSE, bytes |-> <<>>, mask |-> <<>>, vals |-> <<>>, why |-> "nil-element"]
       ELSE LET h == EncMsg(T, xs[lo]) IN [ok |-> h.ok, bytes |-> h.bytes, mask |-> h.mask, vals |-> <<h.val>>, why |-> h.why]
  ELSE LET mid == (lo + hi) \div 2
           a == EncObjRange(T, xs, lo, mid)
       IN IF ~a.ok THEN a
          ELSE LET b == EncObjRange(T, xs, mid + 1, hi) IN
               IF ~b.ok THEN b
               ELSE [ok |-> TRUE, bytes |-> a.bytes \o b.bytes, mask |-> a.mask \o b.mask, vals |-> a.vals \o b.vals, why |-> ""]
EncObjs(T, xs, i) == EncObjRange(T, xs, i, Len(xs))

(* C03: do byte strings a and b (same length) differ ONLY by the byte      *)
(* order of some multi-byte integers of mask m?  kinds: the slot kinds     *)
(* whose integers are reversed in b.                                       *)
SlotStarts(m) == {i \in 1..Len(m) : m[i] % 16 >= 2 /\ (i = 1 \/ m[i - 1] % 16 <= 1)}
SlotW(m, i) == m[i] % 16
SlotKind(m, i) == m[i] \div 16
InSlot(m, i) == m[i] >= 16
OnlyByteOrderDiffers(a, b, m) ==
  /\ Len(a) = Len(b) /\ Len(a) = Len(m)
  /\ \A i \in 1..Len(a) : ~InSlot(m, i) => a[i] = b[i]
  /\ \A i \in SlotStarts(m) : LET w == SlotW(m, i) IN
        \/ \A j \in 0..(w - 1) : a[i + j] = b[i + j]
        \/ \A j \in 0..(w - 1) : a[i + j] = b[i + w - 1 - j]
(* C13 at message level: do a and b differ, and only inside fixed-width text fields (and, as a   *)
(* consequence, in a frame checksum computed over them)?                                          *)
OnlyFixedTextDiffers(a, b, m) ==
  /\ Len(a) = Len(b) /\ Len(a) = Len(m) /\ a # b
  /\ \A i \in 1..Len(a) : (m[i] # KFixedMark /\ m[i] \div 16 # KCsum) => a[i] = b[i]
  /\ \E i \in 1..Len(a) : m[i] = KFixedMark /\ a[i] # b[i]
ReversedKinds(a, b, m) ==
  {SlotKind(m, i) : i \in {s \in SlotStarts(m) : \E j \in 0..(SlotW(m, s) - 1) : a[s + j] # b[s + j]}}

---------------------------------------------------------------------------
(* Decoding.  Accumulator: ok, val, pos (index of the next unread byte of  *)
(* w), reserve (abstract allocation meter of C10: bytes reserved for       *)
(* prefixed data; a faithful reader reserves only what is present).        *)
(***************************************************************************)
Avail(w, pos) == Len(w) - pos + 1

(* minimal wire size of one list element *)
MinElem(e) == CASE e.kind = "int" -> e.w [] e.kind = "fixed" -> e.n [] e.kind = "str" -> e.pw

(* n length-prefixed texts starting at pos: [ok, vals, pos].  A strict left   *)
(* fold (SequencesExt!FoldLeft runs as a Java loop) first finds where each    *)
(* text starts; lists of 65,535 texts stay cheap.                             *)
DecStrs(E, pw, w, pos, n) ==
  LET step(acc, i) ==
        IF ~acc.ok THEN acc
        ELSE IF Avail(w, acc.pos) < pw THEN [acc EXCEPT !.ok = FALSE]
        ELSE LET l == ValCap(Ord(E, SubSeq(w, acc.pos, acc.pos + pw - 1))) IN
             IF Avail(w, acc.pos + pw) < l THEN [acc EXCEPT !.ok = FALSE]
             ELSE [ok |-> TRUE, pos |-> acc.pos + pw + l, at |-> Append(acc.at, <<acc.pos + pw, l>>)]
      r == FoldLeft(step, [ok |-> TRUE, pos |-> pos, at |-> <<>>], [i \in 1..n |-> i])
  IN [ok |-> r.ok, pos |-> r.pos,
      vals |-> IF r.ok THEN [i \in 1..Len(r.at) |-> SubSeq(w, r.at[i][1], r.at[i][1] + r.at[i][2] - 1)] ELSE <<>>]

RECURSIVE DecMsg(_, _, _)
RECURSIVE DecObjs(_, _, _, _)
RECURSIVE DecFold(_, _, _, _, _)

DFail(acc, why) == [acc EXCEPT !.ok = FALSE, !.why = why]

(* the look-up key as the DECODER sees it: the key field's decoded value *)
DecStep(T, E, w, acc, f) ==
  LET pos == acc.pos IN
  CASE f.kind \in {"int", "len", "checksum"} ->
         IF Avail(w, pos) < f.w THEN DFail(acc, "short")
         ELSE [acc EXCEPT !.val = @ @@ (f.name :> Ord(E, SubSeq(w, pos, pos + f.w - 1))), !.pos = pos + f.w]
    [] f.kind = "fixed" ->
         IF Avail(w, pos) < f.n THEN DFail(acc, "short")
         ELSE [acc EXCEPT !.val = @ @@ (f.name :> TrimFixed(SubSeq(w, pos, pos + f.n - 1), f.pad, f.left)),
                          !.pos = pos + f.n]
    [] f.kind = "str" ->
         IF Avail(w, pos) < f.pw THEN DFail(acc, "short")
         ELSE LET l == ValCap(Ord(E, SubSeq(w, pos, pos + f.pw - 1))) IN
              IF Avail(w, pos + f.pw) < l THEN DFail(acc, "short")
              ELSE [acc EXCEPT !.val = @ @@ (f.name :> SubSeq(w, pos + f.pw, pos + f.pw + l - 1)),
                               !.pos = pos + f.pw + l, !.reserve = @ + l]
    [] f.kind = "list" ->
         IF Avail(w, pos) < f.pw THEN DFail(acc, "short")
         ELSE LET n == ValCap(Ord(E, SubSeq(w, pos, pos + f.pw - 1)))
                  p0 == pos + f.pw
                  e == f.elem
              IN IF n > Avail(w, p0) \/ n * MinElem(e) > Avail(w, p0) THEN DFail(acc, "short")
                 ELSE (CASE e.kind = "int" ->
                             [acc EXCEPT !.val = @ @@ (f.name :> [i \in 1..n |-> Ord(E, SubSeq(w, p0 + (i - 1) * e.w, p0 + i * e.w - 1))]),
                                         !.pos = p0 + n * e.w, !.reserve = @ + n * e.w]
                        [] e.kind = "fixed" ->
                             [acc EXCEPT !.val = @ @@ (f.name :> [i \in 1..n |-> TrimFixed(SubSeq(w, p0 + (i - 1) * e.n, p0 + i * e.n - 1), e.pad, e.left)]),
                                         !.pos = p0 + n * e.n, !.reserve = @ + n * e.n]
                        [] e.kind = "str" ->
                             LET r == DecStrs(E, e.pw, w, p0, n) IN
                             IF ~r.ok THEN DFail(acc, "short")
                             ELSE [acc EXCEPT !.val = @ @@ (f.name :> r.vals), !.pos = r.pos, !.reserve = @ + (r.pos - p0)])
    [] f.kind = "obj" ->
         LET r == DecMsg(f.type, w, pos) IN
         IF ~r.ok THEN DFail(acc, r.why)
         ELSE [acc EXCEPT !.val = @ @@ (f.name :> r.val), !.pos = r.pos, !.reserve = @ + r.reserve]
    [] f.kind = "objlist" ->
         IF Avail(w, pos) < f.pw THEN DFail(acc, "short")
         ELSE LET cnt == ValCap(Ord(E, SubSeq(w, pos, pos + f.pw - 1))) IN
              IF cnt > Avail(w, pos + f.pw) THEN DFail(acc, "short")
              ELSE LET r == DecObjs(f.type, w, pos + f.pw, cnt) IN
                   IF ~r.ok THEN DFail(acc, r.why)
                   ELSE [acc EXCEPT !.val = @ @@ (f.name :> r.vals), !.pos = r.pos, !.reserve = @ + r.reserve]
    [] f.kind = "body" ->
         LET bt == Lookup(f.table, acc.val[f.key]) IN
         IF bt = "none" THEN DFail(acc, "unknown-key")
         ELSE LET r == DecMsg(bt, w, pos) IN
              IF ~r.ok THEN DFail(acc, r.why)
              ELSE [acc EXCEPT !.val = @ @@ (f.name :> r.val), !.pos = r.pos, !.reserve = @ + r.reserve]

DecFold(T, E, w, acc, i) ==
  LET fs == FieldsOf(T) IN
  IF i > Len(fs) \/ ~acc.ok THEN acc ELSE DecFold(T, E, w, DecStep(T, E, w, acc, fs[i]), i + 1)

DecMsg(T, w, pos) ==
  DecFold(T, EndianOf(T), w, [ok |-> TRUE, val |-> ("_t" :> T), pos |-> pos, reserve |-> 0, why |-> ""], 1)

DecObjs(T, w, pos, n) ==
  LET step(acc, i) ==
        IF ~acc.ok THEN acc
        ELSE LET h == DecMsg(T, w, acc.pos) IN
             IF ~h.ok THEN [acc EXCEPT !.ok = FALSE, !.why = h.why]
             ELSE [ok |-> TRUE, vals |-> Append(acc.vals, h.val), pos |-> h.pos, reserve |-> acc.reserve + h.reserve, why |-> ""]
  IN FoldLeft(step, [ok |-> TRUE, vals |-> <<>>, pos |-> pos, reserve |-> 0, why |-> ""], [i \in 1..n |-> i])

(* Decode one message from the front of w: [ok, val, used, reserve] *)
Dec(T, w) == LET r == DecMsg(T, w, 1) IN [ok |-> r.ok, val |-> r.val, used |-> r.pos - 1, reserve |-> r.reserve, why |-> r.why]

---------------------------------------------------------------------------
(* C01's canonical domain, decided by the specification.                   *)
(***************************************************************************)
RECURSIVE Canonical(_, _)
CanonElem(e, x) ==
  CASE e.kind = "int" -> Len(x) = e.w
    [] e.kind = "fixed" -> CanonFixed(x, e.n, e.pad, e.left)
    [] e.kind = "str" -> Fits(Len(x), e.pw)
CanonField(T, v, f) ==
  LET x == v[f.name] IN
  CASE f.kind \in {"int", "len", "checksum"} -> Len(x) = f.w
    [] f.kind = "fixed" -> CanonFixed(x, f.n, f.pad, f.left)
    [] f.kind = "str" -> Fits(Len(x), f.pw)
    [] f.kind = "list" -> Fits(Len(x), f.pw) /\ \A i \in 1..Len(x) : CanonElem(f.elem, x[i])
    [] f.kind = "obj" -> ~IsNil(x) /\ x["_t"] = f.type /\ Canonical(f.type, x)
    [] f.kind = "objlist" -> Fits(Len(x), f.pw) /\ \A i \in 1..Len(x) : ~IsNil(x[i]) /\ x[i]["_t"] = f.type /\ Canonical(f.type, x[i])
    [] f.kind = "body" -> ~IsNil(x) /\ x["_t"] = Lookup(f.table, v[f.key]) /\ Canonical(x["_t"], x)
Canonical(T, v) ==
  LET fs == FieldsOf(T) IN v["_t"] = T /\ \A i \in 1..Len(fs) : CanonField(T, v, fs[i])

HasNilNested(T, v) == \E i \in 1..Len(FieldsOf(T)) : FieldsOf(T)[i].kind = "obj" /\ IsNil(v[FieldsOf(T)[i].name])

(* v with the frame's self-computed fields set to their correct values:    *)
(* what decode(encode(v)) must yield for canonical v (C01).                *)
Corrected(T, v) == EncMsg(T, v).val

(* Does T carry a self-computed length / checksum? *)
HasKind(T, k) == \E i \in 1..Len(FieldsOf(T)) : FieldsOf(T)[i].kind = k

(* offset (0-based) of the first byte of field kind k in T's header: the   *)
(* sum of the fixed sizes of the fields before it (header fields are all   *)
(* fixed size)                                                             *)
RECURSIVE HdrOff(_, _, _)
HdrOff(T, k, i) ==
  LET f == FieldsOf(T)[i] IN
  IF f.kind = k THEN 0
  ELSE (CASE f.kind \in {"int", "len", "checksum"} -> f.w [] f.kind = "fixed" -> f.n) + HdrOff(T, k, i + 1)
LenOff(T) == HdrOff(T, "len", 1)
BodyOff(T) == LenOff(T) + 4
ChecksumAlg(T) == LET fs == FieldsOf(T) IN fs[CHOOSE i \in 1..Len(fs) : fs[i].kind = "checksum"].alg
TrailerLen(T) == IF HasKind(T, "checksum") THEN 4 ELSE 0
---------------------------------------------------------------------------
(* Frame layout helpers over the bytes one frame encode appended.          *)
FrameTypes == {T \in TypeNames : HasKind(T, "len")}
CsumTypes == {T \in TypeNames : HasKind(T, "checksum")}
LenName(T) == LET fs == FieldsOf(T) IN fs[CHOOSE i \in 1..Len(fs) : fs[i].kind = "len"].name
CsumName(T) == LET fs == FieldsOf(T) IN fs[CHOOSE i \in 1..Len(fs) : fs[i].kind = "checksum"].name

(* Header bytes before the length field as the pinned layout renders them  *)
(* (C04/C05 are judged only on frames whose header conforms; otherwise the *)
(* report belongs to C02).                                                 *)
RECURSIVE HdrBytes(_, _, _, _)
HdrBytes(T, E, v, i) ==
  LET f == FieldsOf(T)[i] IN
  IF f.kind = "len" THEN <<>>
  ELSE (CASE f.kind = "int" -> Ord(E, v[f.name])
          [] f.kind = "fixed" -> PadFixed(v[f.name], f.n, f.pad, f.left)) \o HdrBytes(T, E, v, i + 1)

HeaderConforms(T, v, app) ==
  /\ Len(app) >= BodyOff(T) + TrailerLen(T)
  /\ IsPrefixOf(HdrBytes(T, EndianOf(T), v, 1), app)

LenFieldOf(T, app) == Ord(EndianOf(T), SubSeq(app, LenOff(T) + 1, LenOff(T) + 4))
CorrectLen(T, app) == Digits(Len(app) - BodyOff(T) - TrailerLen(T), 4)
CsumFieldOf(T, app) == Ord(EndianOf(T), SubSeq(app, Len(app) - 3, Len(app)))
CorrectCsum(T, app) == Alg(ChecksumAlg(T), Take(app, Len(app) - 4))

(* Registry x frames: what the code does when the frame's checksum service *)
(* is NOT registered - the encoder keeps the caller's checksum value (it    *)
(* computes the length as usual).  C05 is stated for the start-up registry; *)
(* this is the modelled behaviour outside that assumption.                  *)
ExpectedEnc(T, v, registry) ==
  LET E == EncMsg(T, v) IN
  IF E.ok /\ T \in CsumTypes /\ ChecksumAlg(T) \notin registry
  THEN [E EXCEPT !.bytes = Take(E.bytes, Len(E.bytes) - 4) \o Ord(EndianOf(T), v[CsumName(T)]),
                 !.val = [E.val EXCEPT ![CsumName(T)] = v[CsumName(T)]]]
  ELSE E

(* w with the self-computed fields of a frame replaced by correct values   *)
FixLenOnly(T, w) ==
  IF T \in FrameTypes /\ Len(w) >= BodyOff(T) + TrailerLen(T)
  THEN LET d == Ord(EndianOf(T), CorrectLen(T, w)) IN
       [i \in 1..Len(w) |-> IF i > LenOff(T) /\ i <= LenOff(T) + 4 THEN d[i - LenOff(T)] ELSE w[i]]
  ELSE w
FixComputed(T, w) ==
  LET w1 == IF T \in FrameTypes /\ Len(w) >= BodyOff(T) + TrailerLen(T)
            THEN LET d == Ord(EndianOf(T), CorrectLen(T, w)) IN
                 [i \in 1..Len(w) |-> IF i > LenOff(T) /\ i <= LenOff(T) + 4 THEN d[i - LenOff(T)] ELSE w[i]]
            ELSE w
  IN IF T \in CsumTypes /\ Len(w1) >= BodyOff(T) + 4
     THEN Take(w1, Len(w1) - 4) \o Ord(EndianOf(T), CorrectCsum(T, w1))
     ELSE w1

=============================================================================
