---------------------------- MODULE RegistryMemo ----------------------------
(***************************************************************************)
(* A design VARIANT of the checksum-service registry that maintainers keep *)
(* reaching for (seeded defects C19-E, C19-G, C19-I, C17-G): a one-entry   *)
(* memo `hot` of the last service looked up, served without the lock, in   *)
(* front of ChecksumRegistry's locked map.  Kept apart from the base       *)
(* module so that its actions - and the TLAPS proof over them - stay as    *)
(* they are.  Two ways to maintain the memo:                               *)
(*   PublishUnderLock = TRUE   Get stores the memo while it still holds    *)
(*                             the read lock; Remove/Clear drop it under   *)
(*                             the write lock.  Linearizable (checked).    *)
(*   PublishUnderLock = FALSE  Get stores the memo after it released the   *)
(*                             lock.  A Remove that runs in the gap is     *)
(*                             undone for every later look-up: must        *)
(*                             violate Linearizable.                       *)
(* This is why the conformance side of C19 judges observed histories by    *)
(* linearizability (TraceRegistry) and not by lock discipline at the hook  *)
(* points: the gap lies after the last hook.                               *)
(***************************************************************************)
EXTENDS RegistryLin

CONSTANT PublishUnderLock
VARIABLE hot      \* the memo: a service or None
mvars == <<vars, hot>>

MInit == Init /\ hot = None

MCall(p, o) == Call(p, o) /\ UNCHANGED hot
MAcquire(p) == pc[p] \in {"waiting", "waiting2"} /\ ~(op[p].kind = "Get" /\ hot # None /\ SvcName(hot) = op[p].name) /\ Acquire(p) /\ UNCHANGED hot

(* fast path: the memo answers, no lock is taken *)
MFast(p) ==
  /\ pc[p] = "waiting" /\ op[p].kind = "Get" /\ hot # None /\ SvcName(hot) = op[p].name
  /\ Complete(p, hot)
  /\ UNCHANGED <<cache, writer, readers, ncalls, seen, wins, winner, inv, racing, hot>>

MFinish(p) ==
  /\ pc[p] \in {"locked", "locked2"}
  /\ IF op[p].kind = "Get"
     THEN LET r == IF cache[op[p].name] = None THEN <<>> ELSE cache[op[p].name] IN
          IF PublishUnderLock
          THEN /\ hot' = IF r # <<>> THEN r ELSE hot
               /\ Complete(p, r) /\ Release(p)
               /\ UNCHANGED <<cache, ncalls, seen, wins, winner, inv, racing>>
          ELSE (* the look-up is done and the lock released; the memo is stored in a later step *)
               /\ Release(p)
               /\ seen' = [seen EXCEPT ![p] = r]
               /\ pc' = [pc EXCEPT ![p] = "publish"]
               /\ UNCHANGED <<cache, op, ret, ncalls, wins, winner, hist, clock, inv, racing, hot>>
     ELSE /\ Finish(p)
          /\ hot' = IF op[p].kind = "Clear" \/ (op[p].kind = "Remove" /\ hot # None /\ SvcName(hot) = op[p].name) THEN None ELSE hot

MPublish(p) ==
  /\ pc[p] = "publish"
  /\ hot' = IF seen[p] # <<>> THEN seen[p] ELSE hot
  /\ Complete(p, seen[p])
  /\ seen' = [seen EXCEPT ![p] = None]
  /\ UNCHANGED <<cache, writer, readers, ncalls, wins, winner, inv, racing>>

MNext == \E p \in Procs : (\E o \in Ops : MCall(p, o)) \/ MAcquire(p) \/ MFast(p) \/ MFinish(p) \/ MPublish(p)
MSpec == MInit /\ [][MNext]_mvars

(* the memo never names a service the map does not hold - true only for the variant that publishes under the lock *)
MemoCoherent == hot # None => cache[SvcName(hot)] = hot
=============================================================================
