SPECIFICATION Spec
CONSTANTS
  MaxOps = 4
  Deviations <- NoDev
  JunkBytes <- MCJunk
CHECK_DEADLOCK FALSE

INVARIANT Export
