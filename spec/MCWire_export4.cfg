SPECIFICATION Spec
CONSTANTS
  MaxOps = 4
  Deviations <- NoDev
  JunkBytes <- MCJunk
  RegistryOps = FALSE
CHECK_DEADLOCK FALSE

INVARIANT Export
