SPECIFICATION Spec
CONSTANTS
  Calls <- AllCalls
  BreakPair = TRUE
CHECK_DEADLOCK FALSE
INVARIANT PairRelation
