SPECIFICATION Spec
CONSTANTS
  MaxOps = 7
  Deviations <- NoDev
  JunkBytes <- MCJunk
  RegistryOps = FALSE
  Receivers = TRUE
  OpSet <- RcvOpsP
CHECK_DEADLOCK FALSE

INVARIANT Export
INVARIANT FramesRight
INVARIANT HeadDecodes
INVARIANT ReceiverIndependent
