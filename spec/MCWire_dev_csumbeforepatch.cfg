SPECIFICATION Spec
CONSTANTS
  MaxOps = 1
  Deviations <- DevCsumBeforePatch
  JunkBytes <- MCJunk
CHECK_DEADLOCK FALSE
VIEW ViewNoHist
INVARIANT FramesRight
