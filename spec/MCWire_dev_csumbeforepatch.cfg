SPECIFICATION Spec
CONSTANTS
  MaxOps = 1
  Deviations <- DevCsumBeforePatch
  JunkBytes <- MCJunk
  RegistryOps = FALSE
CHECK_DEADLOCK FALSE
VIEW ViewNoHist
INVARIANT FramesRight
