SPECIFICATION Spec
CONSTANTS
  MaxOps = 1
  Deviations <- DevCsumBeforePatch
  JunkBytes <- MCJunk
  RegistryOps = FALSE
  Receivers = FALSE
  OpSet <- AllOps
CHECK_DEADLOCK FALSE
VIEW ViewNoHist
INVARIANT FramesRight
