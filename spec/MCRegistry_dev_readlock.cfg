SPECIFICATION Spec
CONSTANTS
  p1 = p1
  p2 = p2
  p3 = p3
  None = None
  Procs <- MCProcs3
  Names <- MCNames
  Services <- MCServices
  MaxCalls = 1
  Deviations <- DevReadLock
VIEW ViewNoHist
CHECK_DEADLOCK FALSE
INVARIANT TypeOK
INVARIANT NoRace
