------------------------------- MODULE MCPrims -------------------------------
EXTENDS PrimMachine

Texts(alpha, maxlen) == UNION {[1..k -> alpha] : k \in 0..maxlen}
Pads == {0, 32, 48, 128, 233, 255}

FixedCalls ==
  { [fn |-> "WriteFixedStringWithPadding", a |-> [s |-> s, n |-> n, pad |-> pad, left |-> left]] :
      n \in 0..3, pad \in Pads, left \in BOOLEAN, s \in Texts({0, 65, 195, 255}, 4) }
  \cup UNION { { [fn |-> "WriteFixedStringWithPadding", a |-> [s |-> s, n |-> n, pad |-> pad, left |-> left]] :
                  n \in 1..3, left \in BOOLEAN,
                  s \in {<<pad>>, <<pad, 65>>, <<65, pad>>, <<pad, pad>>, <<65, pad, 65>>, <<pad, 65, pad>>} } : pad \in Pads }
  \cup { [fn |-> "WriteFixedString", a |-> [s |-> s, n |-> n]] : n \in 0..3, s \in Texts({32, 65, 0}, 4) }

Nums == [w \in {1, 2, 4, 8} |-> { [i \in 1..w |-> i], [i \in 1..w |-> 255 - i], [i \in 1..w |-> IF i = 1 THEN 128 ELSE 0] }]
Eks == {<<"u8", 1>>, <<"i16", 2>>, <<"u32", 4>>, <<"f64", 8>>}
ValsOfKind(k) == {<<>>} \cup {<<x>> : x \in Nums[k[2]]} \cup {<<x, y>> : x \in Nums[k[2]], y \in Nums[k[2]]}
ListCalls ==
  UNION { { [fn |-> "WriteBasicTypeList", a |-> [vals |-> vs, pw |-> pw, ek |-> k[1], le |-> le]] :
              pw \in {1, 2, 4, 8}, le \in BOOLEAN, vs \in ValsOfKind(k) } : k \in Eks }
  \cup UNION { { [fn |-> "WriteBasicType", a |-> [v |-> x, ek |-> k[1], le |-> le]] : le \in BOOLEAN, x \in Nums[k[2]] } : k \in Eks }
StrCalls ==
  { [fn |-> "WriteString", a |-> [s |-> s, pw |-> pw, le |-> le]] : pw \in {1, 2, 4, 8}, le \in BOOLEAN, s \in Texts({0, 65}, 2) }
  \cup { [fn |-> "WriteStringList", a |-> [vals |-> vs, pw |-> pw, pw2 |-> pw2, le |-> le]] :
      pw \in {1, 2}, pw2 \in {1, 4}, le \in BOOLEAN, vs \in {<<>>, <<<<65>>>>, <<<<>>, <<65, 0>>>>, <<<<66>>, <<>>, <<67, 68, 69>>>>} }
  \cup { [fn |-> "WriteFixedStringListWithPadding", a |-> [vals |-> vs, n |-> 2, pad |-> pad, left |-> left, pw |-> pw, le |-> le]] :
      pw \in {1, 2}, le \in BOOLEAN, pad \in {0, 48}, left \in BOOLEAN, vs \in {<<>>, <<<<65>>>>, <<<<>>, <<65, 66, 67>>>>} }
LimitCalls ==
  { [fn |-> "WriteBasicTypeList", a |-> [vals |-> <<>>, count |-> n, elem |-> <<7>>, pw |-> 1, ek |-> "u8", le |-> le]] : n \in {254, 255, 256, 257}, le \in BOOLEAN }
  \cup { [fn |-> "WriteString", a |-> [s |-> Rep(65, n), pw |-> 1, le |-> le]] : n \in {254, 255, 256, 300}, le \in BOOLEAN }
  \cup { [fn |-> "WriteFixedStringList", a |-> [vals |-> <<>>, count |-> n, elem |-> <<66>>, n |-> 1, pw |-> 1, le |-> le]] : n \in {255, 256}, le \in BOOLEAN }

AllCalls == FixedCalls \cup ListCalls \cup StrCalls \cup LimitCalls

(* thorough tier: widths 4..5 as well, every text of length <= 4 over 5 symbols, 6 pads, both sides *)
BigFixedCalls ==
  { [fn |-> "WriteFixedStringWithPadding", a |-> [s |-> s, n |-> n, pad |-> pad, left |-> left]] :
      n \in 4..5, pad \in Pads, left \in BOOLEAN, s \in Texts({0, 32, 65, 195, 255}, 4) }
AllCallsThorough == AllCalls \cup BigFixedCalls
=============================================================================
