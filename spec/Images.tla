------------------------------- MODULE Images -------------------------------
(***************************************************************************)
(* Direction A for C08 (and the decode half of C02): wire images built by  *)
(* the SPECIFICATION, not by the library's encoder.  For every sample      *)
(* value it prints the pinned rendering EncMsg(T, v) and variants in which *)
(* every fixed-width text slot keeps only a prefix / suffix of its content *)
(* (so that long pad runs, pad bytes on the other side and empty texts all *)
(* occur), together with what the decode action makes of the image.  The   *)
(* real decoder is then run on each image and its result re-encoded.       *)
(***************************************************************************)
EXTENDS Codec

Values == ndJsonDeserialize(IOEnv.VERIF_VALUES)
VARIABLE i

(* v with every fixed text cut to its first k bytes (k = 0: all texts empty) *)
RECURSIVE CutTexts(_, _, _)
CutField(T, v, f, k) ==
  LET x == v[f.name] IN
  CASE f.kind = "fixed" -> IF Len(x) > k THEN SubSeq(x, 1, k) ELSE x
    [] f.kind = "obj" -> IF IsNil(x) THEN x ELSE CutTexts(f.type, x, k)
    [] f.kind = "objlist" -> [j \in 1..Len(x) |-> CutTexts(f.type, x[j], k)]
    [] f.kind = "body" -> IF IsNil(x) THEN x ELSE CutTexts(x["_t"], x, k)
    [] OTHER -> x
CutTexts(T, v, k) ==
  LET fs == FieldsOf(T)
      keys == {fs[j].key : j \in {j \in 1..Len(fs) : fs[j].kind = "body"}}
  IN [n \in DOMAIN v |->
        IF n = "_t" THEN v[n]
        ELSE LET f == fs[CHOOSE j \in 1..Len(fs) : fs[j].name = n] IN
             IF n \in keys THEN v[n] ELSE CutField(T, v, f, k)]

ImagesOf(T, v) ==
  { EncMsg(T, CutTexts(T, v, k)).bytes : k \in {k \in {0, 1, 3, 1000} : EncMsg(T, CutTexts(T, v, k)).ok} }

Report(T, w) == LET D == Dec(T, w) IN [t |-> T, w |-> w, ok |-> D.ok, used |-> D.used]

Init == i = 1
Next == /\ i <= Len(Values)
        /\ LET x == Values[i] IN PrintT(<<"IMAGE", ToJson(SetToSeq({Report(x.t, w) : w \in ImagesOf(x.t, x.v)}))>>)
        /\ i' = i + 1
Spec == Init /\ [][Next]_i

(* C01 as a theorem of the format: decoding the pinned rendering of a canonical value gives the *)
(* value back, with the self-computed fields at their correct values                            *)
RoundTrips ==
  i <= Len(Values) =>
    \A k \in {0, 1, 3, 1000} :
      LET v == CutTexts(Values[i].t, Values[i].v, k)
          E == EncMsg(Values[i].t, v)
      IN E.ok /\ Canonical(Values[i].t, v) => Dec(Values[i].t, E.bytes).val = E.val

(* C11 as a theorem of the format: no strict prefix of a pinned rendering decodes (images up to *)
(* MaxCutLen bytes; every cut position)                                                         *)
MaxCutLen == 260
PrefixFree ==
  i <= Len(Values) =>
    \A w \in ImagesOf(Values[i].t, Values[i].v) :
      Len(w) <= MaxCutLen => \A c \in 0..(Len(w) - 1) : ~Dec(Values[i].t, Take(w, c)).ok

(* C08 on a small type, exhaustively: whatever bytes the decoder of sample.SubPacket accepts,   *)
(* re-encoding the result reproduces exactly the bytes consumed (all strings of <= 8 bytes over *)
(* a 4-symbol alphabet: 87,381 strings)                                                         *)
SmallAlphabet == {0, 1, 65, 255}
SmallStrings == UNION {[1..n -> SmallAlphabet] : n \in 0..8}
ReencodeSmall ==
  i = 1 => \A w \in SmallStrings :
             LET D == Dec("sample.SubPacket", w) IN
             D.ok => LET E == EncMsg("sample.SubPacket", D.val) IN E.ok /\ E.bytes = Take(w, D.used)

(* the pinned rendering of any value decodes, and consumes exactly itself (prefix-freeness of the format) *)
SelfDecodes == i <= Len(Values) => \A w \in ImagesOf(Values[i].t, Values[i].v) : LET D == Dec(Values[i].t, w) IN D.ok /\ D.used = Len(w)
=============================================================================
