--------------------------- MODULE RegistrySched ---------------------------
(***************************************************************************)
(* Schedule generator for direction A of C19: the behaviours of            *)
(* ChecksumRegistry that the harness can force deterministically on real   *)
(* goroutines through the ":locked" gate hook:                             *)
(*   - a goroutine that can take the lock takes it at once (Acquire has    *)
(*     priority), so that the real RWMutex and the model agree on who      *)
(*     holds it,                                                           *)
(*   - at most one goroutine is blocked at a time and no new call starts   *)
(*     while one is blocked (Go's RWMutex prefers a waiting writer over    *)
(*     later readers, which the abstract lock does not model).             *)
(* Every behaviour here is a behaviour of ChecksumRegistry (a restriction  *)
(* of Next).  At terminal states the schedule, with the result the model   *)
(* computed for every call, is printed as JSON.                            *)
(***************************************************************************)
EXTENDS MCRegistry, Json

VARIABLE sched
svars == <<vars, sched>>

Blocked == {p \in Procs : pc[p] = "waiting"}
CanAcquire(p) == /\ pc[p] = "waiting"
                 /\ IF WantsRead(p) THEN writer = None ELSE writer = None /\ readers = {}

OpJson(o) == CASE o.kind = "Registry" -> [kind |-> "Registry", name |-> "", svc |-> o.svc]
               [] o.kind \in {"Get", "Remove"} -> [kind |-> o.kind, name |-> o.name, svc |-> <<>>]
               [] o.kind = "Clear" -> [kind |-> "Clear", name |-> "", svc |-> <<>>]
ResJson(r) == r

SInit == Init /\ sched = <<>>
SNext ==
  IF \E p \in Procs : CanAcquire(p)
  THEN \E p \in Procs : CanAcquire(p) /\ Acquire(p) /\ sched' = Append(sched, [a |-> "Acquire", p |-> ToString(p)])
  ELSE \/ \E p \in Procs, o \in Ops :
            Blocked = {} /\ Call(p, o) /\ sched' = Append(sched, [a |-> "Call", p |-> ToString(p), op |-> OpJson(o)])
       \/ \E p \in Procs :
            Finish(p) /\ sched' = Append(sched, [a |-> "Finish", p |-> ToString(p), res |-> ResJson(ret'[p])])
SSpec == SInit /\ [][SNext]_svars

Terminal == \A p \in Procs : pc[p] = "idle" /\ ncalls[p] = MaxCalls
Export == Terminal => PrintT(<<"SCHEDULE", ToJson(sched)>>)
=============================================================================
