SPECIFICATION Spec
CONSTANTS
  MaxOps = 5
  Deviations <- NoDev
  JunkBytes <- MCJunk
  RegistryOps = FALSE
  Receivers = FALSE
  OpSet <- AllOps
CHECK_DEADLOCK FALSE
VIEW ViewNoHist
INVARIANT FramesRight
INVARIANT ObjectReports
INVARIANT HeadDecodes
INVARIANT ChannelShape
PROPERTY AppendOnly
PROPERTY ChannelRefinement
