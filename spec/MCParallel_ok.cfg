SPECIFICATION Spec
CONSTANTS
  p1 = p1
  p2 = p2
  p3 = p3
  Procs <- MCProcs
  Values <- MCValues
  MaxOps = 3
  Deviations <- NoDev
  Side = "SIDE"
CHECK_DEADLOCK FALSE
INVARIANT NonInterference
