SPECIFICATION MSpec
CONSTANTS
  p1 = p1
  p2 = p2
  None = None
  Procs <- MCProcs2
  Names <- MCNames
  Services <- MCServices
  MaxCalls = 2
  Deviations <- NoDev
  PublishUnderLock = FALSE
CHECK_DEADLOCK FALSE
INVARIANT Linearizable

