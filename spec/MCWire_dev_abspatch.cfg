SPECIFICATION Spec
CONSTANTS
  MaxOps = 3
  Deviations <- DevAbsPatch
  JunkBytes <- MCJunk
  RegistryOps = FALSE
CHECK_DEADLOCK FALSE
VIEW ViewNoHist
INVARIANT FramesRight
