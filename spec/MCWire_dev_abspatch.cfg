SPECIFICATION Spec
CONSTANTS
  MaxOps = 3
  Deviations <- DevAbsPatch
  JunkBytes <- MCJunk
  RegistryOps = FALSE
  Receivers = FALSE
  OpSet <- AllOps
CHECK_DEADLOCK FALSE
VIEW ViewNoHist
INVARIANT FramesRight
