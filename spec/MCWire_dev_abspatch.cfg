SPECIFICATION Spec
CONSTANTS
  MaxOps = 3
  Deviations <- DevAbsPatch
  JunkBytes <- MCJunk
CHECK_DEADLOCK FALSE
VIEW ViewNoHist
INVARIANT FramesRight
