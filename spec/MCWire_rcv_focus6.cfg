SPECIFICATION Spec
CONSTANTS
  MaxOps = 6
  Deviations <- NoDev
  JunkBytes <- MCJunk
  RegistryOps = FALSE
  Receivers = TRUE
  OpSet <- RcvOpsF
CHECK_DEADLOCK FALSE

INVARIANT Export
INVARIANT FramesRight
INVARIANT HeadDecodes
INVARIANT ChannelShape
INVARIANT ReceiverIndependent
