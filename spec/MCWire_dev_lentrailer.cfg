SPECIFICATION Spec
CONSTANTS
  MaxOps = 1
  Deviations <- DevLenTrailer
  JunkBytes <- MCJunk
CHECK_DEADLOCK FALSE
VIEW ViewNoHist
INVARIANT FramesRight
