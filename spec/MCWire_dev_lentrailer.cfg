SPECIFICATION Spec
CONSTANTS
  MaxOps = 1
  Deviations <- DevLenTrailer
  JunkBytes <- MCJunk
  RegistryOps = FALSE
CHECK_DEADLOCK FALSE
VIEW ViewNoHist
INVARIANT FramesRight
