SPECIFICATION Spec
CONSTANTS
  MaxOps = 3
  Deviations <- DevScratch
  JunkBytes <- MCJunk
  RegistryOps = FALSE
CHECK_DEADLOCK FALSE
VIEW ViewNoHist
INVARIANT FramesRight
