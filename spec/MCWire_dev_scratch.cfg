SPECIFICATION Spec
CONSTANTS
  MaxOps = 3
  Deviations <- DevScratch
  JunkBytes <- MCJunk
  RegistryOps = FALSE
  Receivers = FALSE
  OpSet <- AllOps
CHECK_DEADLOCK FALSE
VIEW ViewNoHist
INVARIANT FramesRight
